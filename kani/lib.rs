//! Contract-harness support, spliced as `crate::verif_kani` (cfg(kani) only).
//!
//! `oblige!(id, cond)`      one named proof obligation (a postcondition clause).
//! `reach!(id)`             vacuity guard: must be SATISFIED.
//! `must_not_reach!(id)`    a point the contract says is never reached (e.g. after an expected panic).

/// One named proof obligation.
#[doc(hidden)]
#[macro_export]
macro_rules! oblige {
    ($id:literal, $cond:expr) => {
        assert!($cond, concat!("OBL:", $id))
    };
}

/// Vacuity guard.
#[doc(hidden)]
#[macro_export]
macro_rules! reach {
    ($id:literal) => {
        kani::cover!(true, $id)
    };
}

/// Point that must be unreachable.
#[doc(hidden)]
#[macro_export]
macro_rules! must_not_reach {
    ($id:literal) => {
        assert!(false, concat!("OBLU:", $id))
    };
}

// ================================================================================================
// C12 wrapper-layer harness templates (used from sync/atomic/{int,bool,ptr}.rs).
// Each harness runs the REAL public loom method with rt::Atomic<T> replaced by the sequential-cell
// contract model, runs the same call on the std atomic, and obliges equal results and equal final
// content for ALL operand values and every valid ordering.
// ================================================================================================

/// Attributes + prologue shared by all C12 wrapper harnesses.
#[doc(hidden)]
#[macro_export]
macro_rules! c12_harness {
    ($name:ident, $body:block) => {
        #[kani::proof]
        #[kani::unwind(12)]
        #[kani::stub(std::hash::RandomState::new, crate::rt::verif_kani::fixed_random_state)]
        #[kani::stub(crate::rt::Atomic::new, crate::rt::Atomic::new_model)]
        #[kani::stub(crate::rt::Atomic::load, crate::rt::Atomic::load_model)]
        #[kani::stub(crate::rt::Atomic::unsync_load, crate::rt::Atomic::unsync_load_model)]
        #[kani::stub(crate::rt::Atomic::store, crate::rt::Atomic::store_model)]
        #[kani::stub(crate::rt::Atomic::rmw, crate::rt::Atomic::rmw_model)]
        #[kani::stub(crate::rt::Atomic::with_mut, crate::rt::Atomic::with_mut_model)]
        fn $name() {
            // trivial installed execution: only read by `location!()`
            let mut ex = crate::rt::verif_kani::exec_with(
                std::mem::ManuallyDrop::into_inner(crate::rt::verif_kani::zero_set()),
                4,
            );
            crate::rt::verif_kani::with_ctx(&mut ex, || $body);
            kani::cover!(true, "c12_wrap");
        }
    };
}

/// Ordering generators (valid orderings per operation class, as std requires).
#[doc(hidden)]
#[macro_export]
macro_rules! c12_any_rmw_order {
    () => {
        match kani::any::<u8>() {
            0 => std::sync::atomic::Ordering::Relaxed,
            1 => std::sync::atomic::Ordering::Acquire,
            2 => std::sync::atomic::Ordering::Release,
            3 => std::sync::atomic::Ordering::AcqRel,
            _ => std::sync::atomic::Ordering::SeqCst,
        }
    };
}
/// Valid load orderings.
#[doc(hidden)]
#[macro_export]
macro_rules! c12_any_load_order {
    () => {
        match kani::any::<u8>() {
            0 => std::sync::atomic::Ordering::Relaxed,
            1 => std::sync::atomic::Ordering::Acquire,
            _ => std::sync::atomic::Ordering::SeqCst,
        }
    };
}
/// Valid store orderings.
#[doc(hidden)]
#[macro_export]
macro_rules! c12_any_store_order {
    () => {
        match kani::any::<u8>() {
            0 => std::sync::atomic::Ordering::Relaxed,
            1 => std::sync::atomic::Ordering::Release,
            _ => std::sync::atomic::Ordering::SeqCst,
        }
    };
}

/// `op(&self, val, order) -> T` (swap, fetch_*).
#[doc(hidden)]
#[macro_export]
macro_rules! c12_rmw1 {
    ($name:ident, $loom:ty, $std:ty, $any:expr, $op:ident) => {
        $crate::c12_harness!($name, {
            let v = $any;
            let x = $any;
            let o = $crate::c12_any_rmw_order!();
            let a = <$loom>::new(v);
            let r = a.$op(x, o);
            let fin = a.load(std::sync::atomic::Ordering::Relaxed);
            std::mem::forget(a);
            let s = <$std>::new(v);
            let rs = s.$op(x, o);
            $crate::oblige!("C12.wrap.return_value_equals_std", r == rs);
            $crate::oblige!("C12.wrap.final_content_equals_std", fin == s.load(std::sync::atomic::Ordering::Relaxed));
        });
    };
}

/// load / store.
#[doc(hidden)]
#[macro_export]
macro_rules! c12_load_store {
    ($name:ident, $loom:ty, $std:ty, $any:expr) => {
        $crate::c12_harness!($name, {
            let v = $any;
            let x = $any;
            let lo = $crate::c12_any_load_order!();
            let so = $crate::c12_any_store_order!();
            let a = <$loom>::new(v);
            let s = <$std>::new(v);
            $crate::oblige!("C12.wrap.load_after_new_equals_std", a.load(lo) == s.load(lo));
            a.store(x, so);
            s.store(x, so);
            let fin = a.load(lo);
            std::mem::forget(a);
            $crate::oblige!("C12.wrap.load_after_store_equals_std", fin == s.load(lo));
            $crate::oblige!("C12.wrap.load_returns_last_store", fin == x);
        });
    };
}

/// compare_exchange / compare_exchange_weak.
#[doc(hidden)]
#[macro_export]
macro_rules! c12_cas {
    ($name:ident, $loom:ty, $std:ty, $any:expr, $op:ident) => {
        $crate::c12_harness!($name, {
            let v = $any;
            let cur = $any;
            let new = $any;
            let so = $crate::c12_any_rmw_order!();
            let fo = $crate::c12_any_load_order!();
            let a = <$loom>::new(v);
            let r = a.$op(cur, new, so, fo);
            let fin = a.load(std::sync::atomic::Ordering::Relaxed);
            std::mem::forget(a);
            let s = <$std>::new(v);
            // std's strong CAS is the oracle for both (loom's weak variant never fails spuriously,
            // which the weak contract allows)
            let rs = s.compare_exchange(cur, new, so, fo);
            $crate::oblige!("C12.wrap.ok_err_shape_and_payload_equal_std", r == rs);
            $crate::oblige!("C12.wrap.final_content_equals_std", fin == s.load(std::sync::atomic::Ordering::Relaxed));
        });
    };
}

/// compare_and_swap (deprecated in std, still the oracle).
#[doc(hidden)]
#[macro_export]
macro_rules! c12_cas_old {
    ($name:ident, $loom:ty, $std:ty, $any:expr) => {
        $crate::c12_harness!($name, {
            let v = $any;
            let cur = $any;
            let new = $any;
            let o = $crate::c12_any_rmw_order!();
            let a = <$loom>::new(v);
            let r = a.compare_and_swap(cur, new, o);
            let fin = a.load(std::sync::atomic::Ordering::Relaxed);
            std::mem::forget(a);
            let s = <$std>::new(v);
            #[allow(deprecated)]
            let rs = s.compare_and_swap(cur, new, o);
            $crate::oblige!("C12.wrap.return_value_equals_std", r == rs);
            $crate::oblige!("C12.wrap.final_content_equals_std", fin == s.load(std::sync::atomic::Ordering::Relaxed));
        });
    };
}

/// fetch_update with a symbolic closure family. `$f` is `|k, x, v| -> Option<T>`.
#[doc(hidden)]
#[macro_export]
macro_rules! c12_fetch_update {
    ($name:ident, $loom:ty, $std:ty, $any:expr, $f:expr) => {
        $crate::c12_harness!($name, {
            let v = $any;
            let x = $any;
            let k: u8 = kani::any();
            let so = $crate::c12_any_rmw_order!();
            let fo = $crate::c12_any_load_order!();
            let f = $f;
            let a = <$loom>::new(v);
            let r = a.fetch_update(so, fo, |cur| f(k, x, cur));
            let fin = a.load(std::sync::atomic::Ordering::Relaxed);
            std::mem::forget(a);
            let s = <$std>::new(v);
            let rs = s.fetch_update(so, fo, |cur| f(k, x, cur));
            $crate::oblige!("C12.wrap.ok_err_shape_and_payload_equal_std", r == rs);
            $crate::oblige!("C12.wrap.final_content_equals_std", fin == s.load(std::sync::atomic::Ordering::Relaxed));
        });
    };
}

/// with_mut (std oracle: get_mut), into_inner, unsync_load.
#[doc(hidden)]
#[macro_export]
macro_rules! c12_owned {
    ($name:ident, $loom:ty, $std:ty, $any:expr, with_mut) => {
        $crate::c12_harness!($name, {
            let v = $any;
            let x = $any;
            let mut a = <$loom>::new(v);
            let seen = a.with_mut(|p| {
                let old = *p;
                *p = x;
                old
            });
            let fin = a.load(std::sync::atomic::Ordering::Relaxed);
            std::mem::forget(a);
            let mut s = <$std>::new(v);
            let p = s.get_mut();
            let seen_s = *p;
            *p = x;
            $crate::oblige!("C12.wrap.with_mut_sees_content", seen == seen_s);
            $crate::oblige!("C12.wrap.final_content_equals_std", fin == s.load(std::sync::atomic::Ordering::Relaxed));
        });
    };
    ($name:ident, $loom:ty, $std:ty, $any:expr, into_inner) => {
        $crate::c12_harness!($name, {
            let v = $any;
            let x = $any;
            let o = $crate::c12_any_store_order!();
            let a = <$loom>::new(v);
            let s = <$std>::new(v);
            if kani::any() {
                a.store(x, o);
                s.store(x, o);
            }
            let u = unsafe { a.unsync_load() };
            $crate::oblige!("C12.wrap.unsync_load_equals_std_content", u == s.load(std::sync::atomic::Ordering::Relaxed));
            $crate::oblige!("C12.wrap.into_inner_equals_std", a.into_inner() == s.into_inner());
        });
    };
}

/// Attribute bundle: replace the panic-report builder by the "no violation may be reported" model,
/// and the clock leaf functions (join, ahead, is_seen_by_current) by their contract models
/// (each proved equal to the real function: s_vv_models_agree, s_firstseen).
#[doc(hidden)]
#[macro_export]
macro_rules! with_fire_forbidden {
    ($(#[$m:meta])* fn $name:ident() $body:block) => {
        $(#[$m])*
        #[kani::stub(std::hash::RandomState::new, crate::rt::thread::verif_kani::fixed_random_state)]
        #[kani::stub(crate::rt::location::panic, crate::rt::location::verif_kani::panic_model)]
        #[kani::stub(crate::rt::location::PanicBuilder::location, crate::rt::location::PanicBuilder::location_model)]
        #[kani::stub(crate::rt::location::PanicBuilder::thread, crate::rt::location::PanicBuilder::thread_model)]
        #[kani::stub(crate::rt::location::PanicBuilder::fire, crate::rt::location::PanicBuilder::fire_forbidden)]
        #[kani::stub(crate::rt::vv::VersionVec::join, crate::rt::vv::VersionVec::join_model)]
        #[kani::stub(crate::rt::vv::VersionVec::ahead, crate::rt::vv::VersionVec::ahead_model)]
        #[kani::stub(crate::rt::atomic::FirstSeen::is_seen_by_current, crate::rt::atomic::FirstSeen::is_seen_by_current_model)]
        fn $name() $body
    };
}

/// Attribute bundle: the panic-report builder is expected to fire.
#[doc(hidden)]
#[macro_export]
macro_rules! with_fire_expected {
    ($(#[$m:meta])* fn $name:ident() $body:block) => {
        $(#[$m])*
        #[kani::stub(std::hash::RandomState::new, crate::rt::thread::verif_kani::fixed_random_state)]
        #[kani::stub(crate::rt::location::panic, crate::rt::location::verif_kani::panic_model)]
        #[kani::stub(crate::rt::location::PanicBuilder::location, crate::rt::location::PanicBuilder::location_model)]
        #[kani::stub(crate::rt::location::PanicBuilder::thread, crate::rt::location::PanicBuilder::thread_model)]
        #[kani::stub(crate::rt::location::PanicBuilder::fire, crate::rt::location::PanicBuilder::fire_expected)]
        #[kani::stub(crate::rt::vv::VersionVec::join, crate::rt::vv::VersionVec::join_model)]
        #[kani::stub(crate::rt::vv::VersionVec::ahead, crate::rt::vv::VersionVec::ahead_model)]
        #[kani::stub(crate::rt::atomic::FirstSeen::is_seen_by_current, crate::rt::atomic::FirstSeen::is_seen_by_current_model)]
        fn $name() $body
    };
}
