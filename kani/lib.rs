//! Contract-harness support, spliced as `crate::verif_kani` (cfg(kani) only).
//!
//! `oblige!(id, cond)`      one named proof obligation (a postcondition clause).
//! `reach!(id)`             vacuity guard: must be SATISFIED.
//! `must_not_reach!(id)`    a point the contract says is never reached (e.g. after an expected panic).

/// One named proof obligation.
#[doc(hidden)]
#[macro_export]
macro_rules! oblige {
    ($id:literal, $cond:expr) => {
        assert!($cond, concat!("OBL:", $id))
    };
}

/// Vacuity guard.
#[doc(hidden)]
#[macro_export]
macro_rules! reach {
    ($id:literal) => {
        kani::cover!(true, $id)
    };
}

/// Point that must be unreachable.
#[doc(hidden)]
#[macro_export]
macro_rules! must_not_reach {
    ($id:literal) => {
        assert!(false, concat!("OBLU:", $id))
    };
}
