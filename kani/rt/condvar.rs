//! C08: contracts for `rt::condvar` (child module of `rt::condvar`).
use super::*;
use crate::rt::execution::verif_kani::{schedule_calls, schedule_saw};
use crate::rt::object::verif_kani::op_opaque;
use crate::rt::thread::verif_kani::*;
use crate::rt::vv::verif_kani::{eq as vv_eq, is_join};
use crate::{oblige, reach};
use std::mem::ManuallyDrop;

const N: usize = 3;

/// Condvar (object 0) whose FIFO holds `len` (path-concrete, <= 2) distinct waiting threads, all
/// different from the active one; waiting threads are parked (Blocked, no pending operation).
fn condvar_exec(len: usize) -> (ManuallyDrop<crate::rt::Execution>, Condvar, [usize; 2]) {
    let mut set = any_set(N);
    let a = active_index(&set).unwrap();
    kani::assume(matches!(thread_at(&set, a).state, crate::rt::thread::State::Runnable { .. }));
    let w0: usize = kani::any();
    let w1: usize = kani::any();
    kani::assume(w0 < N && w1 < N && w0 != w1 && w0 != a && w1 != a);
    kani::assume(wf_thread_ops(&set));
    let mut q = VecDeque::with_capacity(4);
    if len >= 1 {
        q.push_back(id_of(&set, w0));
    }
    if len >= 2 {
        q.push_back(id_of(&set, w1));
    }
    let mut ex = crate::rt::execution::verif_kani::exec_with(ManuallyDrop::into_inner(set), 4);
    let r0 = crate::rt::execution::verif_kani::objects_mut(&mut ex).insert(State { last_access: None, waiters: q });
    (ex, Condvar { state: r0 }, [w0, w1])
}

fn qlen(ex: &crate::rt::Execution, c: &Condvar) -> usize {
    c.state.get(crate::rt::execution::verif_kani::objects(ex)).waiters.len()
}
fn qfront(ex: &crate::rt::Execution, c: &Condvar) -> Option<usize> {
    c.state.get(crate::rt::execution::verif_kani::objects(ex)).waiters.front().map(|i| i.as_usize())
}

fn notify_one_body(len: usize) {
    let (mut ex, cv, w) = condvar_exec(len);
    let old = set_view(&ex.threads);
    let a = old.active.unwrap();
    let oa = old.th[a];
    crate::rt::scheduler::verif_kani::with_ctx(&mut ex, || cv.notify_one(Location::disabled()));
    let new = set_view(&ex.threads);
    oblige!("C08.condvar.notify_one.branches_once_on_the_condvar", schedule_calls() == 1 && schedule_saw().unwrap().th[a].op == Some((0, 0)));
    if len == 0 {
        oblige!("C08.condvar.notify_one.no_waiter_is_a_no_op", qlen(&ex, &cv) == 0);
    } else {
        oblige!("C08.condvar.notify_one.pops_exactly_the_front_waiter", qlen(&ex, &cv) == len - 1
            && (len < 2 || qfront(&ex, &cv) == Some(w[1])));
    }
    let mut i = 0;
    while i < N {
        let (o, n) = (old.th[i], new.th[i]);
        if i == a {
            oblige!("C08.condvar.notify_one.notifier_only_gains_pending_operation", n.st == o.st && vv_eq(&n.causality, &o.causality));
        } else if len >= 1 && i == w[0] {
            // the state change itself is Thread::set_unparked's contract (c08_set_unparked__*)
            oblige!("C08.condvar.notify_one.front_waiter_receives_notifiers_view", is_join(&n.causality, &o.causality, &oa.causality) && n.op == o.op);
            oblige!("C08.condvar.notify_one.wakes_parked_front_waiter", !is_parked(&o) || n.st == (StView::Runnable { unparked: false }));
        } else {
            oblige!("C08.condvar.notify_one.releases_nobody_else", th_view_eq(&o, &n));
        }
        i += 1;
    }
    reach!("c08_condvar_notify_one");
}

crate::with_fire_forbidden! {
//@ props=C08,C04 tier=quick timeout=1500 fns=src/rt/condvar.rs::Condvar::notify_one,src/rt/thread.rs::Set::unpark bounded=threads:N=3,waiters:len<=2 models=Execution::schedule=probe,Scheduler::switch=counting,VersionVec::join=s_vv_models_agree
#[kani::proof]
#[kani::unwind(7)]
#[kani::stub(crate::rt::execution::Execution::schedule, crate::rt::execution::Execution::schedule_probe_model)]
#[kani::stub(crate::rt::scheduler::Scheduler::switch, crate::rt::scheduler::verif_kani::switch_counting_model)]
fn c08_condvar_notify_one() {
    match kani::any::<u8>() {
        0 => notify_one_body(0),
        1 => notify_one_body(1),
        _ => notify_one_body(2),
    }
}
}

fn notify_all_body(len: usize) {
    let (mut ex, cv, w) = condvar_exec(len);
    let old = set_view(&ex.threads);
    let a = old.active.unwrap();
    let oa = old.th[a];
    crate::rt::scheduler::verif_kani::with_ctx(&mut ex, || cv.notify_all(Location::disabled()));
    let new = set_view(&ex.threads);
    oblige!("C08.condvar.notify_all.queue_empty_afterwards", qlen(&ex, &cv) == 0);
    let mut i = 0;
    while i < N {
        let (o, n) = (old.th[i], new.th[i]);
        let waiting = (len >= 1 && i == w[0]) || (len >= 2 && i == w[1]);
        if i == a {
            oblige!("C08.condvar.notify_all.notifier_only_gains_pending_operation", n.st == o.st && vv_eq(&n.causality, &o.causality));
        } else if waiting {
            oblige!("C08.condvar.notify_all.every_waiter_receives_notifiers_view", is_join(&n.causality, &o.causality, &oa.causality));
            oblige!("C08.condvar.notify_all.wakes_every_parked_waiter", !is_parked(&o) || n.st == (StView::Runnable { unparked: false }));
        } else {
            oblige!("C08.condvar.notify_all.releases_nobody_else", th_view_eq(&o, &n));
        }
        i += 1;
    }
    reach!("c08_condvar_notify_all");
}

crate::with_fire_forbidden! {
//@ props=C08,C04 tier=thorough timeout=3000 fns=src/rt/condvar.rs::Condvar::notify_all bounded=threads:N=3,waiters:len<=2 models=Execution::schedule=probe,Scheduler::switch=counting,VersionVec::join=s_vv_models_agree
#[kani::proof]
#[kani::unwind(7)]
#[kani::stub(crate::rt::execution::Execution::schedule, crate::rt::execution::Execution::schedule_probe_model)]
#[kani::stub(crate::rt::scheduler::Scheduler::switch, crate::rt::scheduler::verif_kani::switch_counting_model)]
fn c08_condvar_notify_all() {
    match kani::any::<u8>() {
        0 => notify_all_body(0),
        1 => notify_all_body(1),
        _ => notify_all_body(2),
    }
}
}

// Condvar::wait phase 1 (up to the yield point inside park): enqueue at the back, release the mutex, park.
crate::with_fire_forbidden! {
//@ props=C08,C07 tier=quick fns=src/rt/condvar.rs::Condvar::wait,src/rt/mod.rs::park,src/rt/mutex.rs::Mutex::release_lock bounded=threads:N=3,waiters:len<=1 models=Execution::schedule=probe_blocked,Scheduler::switch=cut_if_blocked,VersionVec::join=s_vv_models_agree
#[kani::proof]
#[kani::unwind(7)]
#[kani::stub(crate::rt::execution::Execution::schedule, crate::rt::execution::Execution::schedule_probe_blocked_model)]
#[kani::stub(crate::rt::scheduler::Scheduler::switch, crate::rt::scheduler::verif_kani::switch_wait_yield_model)]
fn c08_condvar_wait_phase1_yields_parked_enqueued_unlocked() {
    let (mut ex, cv, _w) = condvar_exec(1);
    let a = active_index(&ex.threads).unwrap();
    // the mutex (object 1) is held by the caller, as the guard type guarantees
    let owner = id_of(&ex.threads, a);
    let m = crate::rt::mutex::verif_kani::insert_locked_mutex(&mut ex, owner);
    // no stored token: the caller really has to wait
    kani::assume(!has_token(&th_view(thread_at(&ex.threads, a))));
    crate::rt::scheduler::verif_kani::with_ctx(&mut ex, || cv.wait(&m, Location::disabled()));
    // reaching this point means wait() returned although nobody notified and no token was stored
    oblige!("C08.condvar.wait.never_returns_without_notification", false);
}
}

pub(crate) fn waiters_len(ex: &crate::rt::Execution, idx: usize) -> usize {
    let r: object::Ref<State> = crate::rt::object::verif_kani::mk_ref(idx);
    r.get(crate::rt::execution::verif_kani::objects(ex)).waiters.len()
}

pub(crate) fn empty_condvar_state() -> State {
    State { last_access: None, waiters: VecDeque::new() }
}
