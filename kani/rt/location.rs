//! Contract models for the panic-report builder (child module of `rt::location`).
//!
//! `location::panic(msg).location(..).thread(..).fire()` is loom's way to report a causality
//! violation.  Its body is string formatting only (very expensive for CBMC and irrelevant to the
//! properties), so harnesses replace it by these models:
//!   * `fire_forbidden`  : the contract says no violation is reported here  -> reaching it fails
//!                         obligation `no_violation_reported` and the path ends (a real `fire` never returns).
//!   * `fire_expected`   : the contract says a violation IS reported -> records that it was reached
//!                         (cover `violation_reported`) and ends the path.
use super::*;

pub(crate) fn panic_model(_msg: impl ToString) -> PanicBuilder {
    PanicBuilder { msg: String::new(), locations: Vec::new() }
}

impl PanicBuilder {
    pub(crate) fn location_model(&mut self, _key: &str, _location: Location) -> &mut Self {
        self
    }
    pub(crate) fn thread_model(&mut self, _key: &str, _thread: impl Into<usize>, _location: Location) -> &mut Self {
        self
    }
    pub(crate) fn fire_forbidden(&self) {
        assert!(false, "OBLU:no_violation_reported");
        kani::assume(false);
    }
    pub(crate) fn fire_expected(&self) {
        kani::cover!(true, "violation_reported");
        kani::assume(false);
    }
}
