//! Helpers and contracts for `rt::object` (child module of `rt::object`).
use super::*;

impl Ref {
    /// Typed reference to slot `index` without looking at the store (harness construction only).
    pub(crate) fn downcast_unchecked<T>(self) -> Ref<T> {
        Ref { index: self.index, _p: PhantomData }
    }
}

pub(crate) fn ref_index<T>(r: &Ref<T>) -> usize {
    r.index
}

pub(crate) fn mk_ref<T>(index: usize) -> Ref<T> {
    Ref { index, _p: PhantomData }
}

/// Numeric code of an action (views compare codes, not enum values).
pub(crate) fn action_code(a: &Action) -> u8 {
    match a {
        Action::Opaque => 0,
        Action::Atomic(rt::atomic::Action::Load) => 10,
        Action::Atomic(rt::atomic::Action::Store) => 11,
        Action::Atomic(rt::atomic::Action::Rmw) => 12,
        Action::Arc(rt::arc::Action::RefInc) => 20,
        Action::Arc(rt::arc::Action::RefDec) => 21,
        Action::Arc(rt::arc::Action::Inspect) => 22,
        Action::Channel(rt::mpsc::Action::MsgSend) => 30,
        Action::Channel(rt::mpsc::Action::MsgRecv) => 31,
        Action::RwLock(rt::rwlock::Action::Read) => 40,
        Action::RwLock(rt::rwlock::Action::Write) => 41,
    }
}

pub(crate) fn op_view(o: &Operation) -> (usize, u8) {
    (o.obj.index, action_code(&o.action))
}

pub(crate) fn mk_op(index: usize, action: Action) -> Operation {
    Operation { obj: Ref::from_usize(index), action, location: Location::disabled() }
}

pub(crate) fn op_opaque(index: usize) -> Operation {
    mk_op(index, Action::Opaque)
}

pub(crate) fn store_len<T>(s: &Store<T>) -> usize {
    s.entries.len()
}

pub(crate) fn store_entries<T>(s: &Store<T>) -> &Vec<T> {
    &s.entries
}

pub(crate) fn store_entries_mut<T>(s: &mut Store<T>) -> &mut Vec<T> {
    &mut s.entries
}

// ================================================================================================
// C10: end-of-iteration leak scan of the object store
// ================================================================================================
use crate::{oblige, reach};

/// Store with two entries drawn from {Alloc, Arc, Mutex}; `leaky[i]` tells whether entry i leaks.
fn leak_store(k0: u8, k1: u8) -> (Store, [bool; 2]) {
    let mut st: Store = Store::with_capacity(4);
    let mut leaky = [false; 2];
    let mut add = |st: &mut Store, k: u8, slot: usize| match k {
        0 => {
            let a = rt::alloc::verif_kani::any_alloc_state();
            leaky[slot] = rt::alloc::verif_kani::is_live(&a);
            st.insert(a);
        }
        1 => {
            let a = rt::arc::verif_kani::any_arc_state();
            leaky[slot] = rt::arc::verif_kani::count(&a) != 0;
            st.insert(a);
        }
        _ => {
            st.entries.push(Entry::Mutex(rt::mutex::verif_kani::unlocked_mutex_state()));
        }
    };
    add(&mut st, k0, 0);
    add(&mut st, k1, 1);
    (st, leaky)
}

//@ props=C10 tier=quick fns=src/rt/object.rs::Store::check_for_leaks,src/rt/execution.rs::Execution::check_for_leaks bounded=store:entries=2
#[kani::proof]
#[kani::unwind(7)]
fn c10_store_scan_silent_when_nothing_leaks() {
    let (k0, k1): (u8, u8) = (kani::any(), kani::any());
    kani::assume(k0 < 3 && k1 < 3);
    let (st, leaky) = leak_store(k0, k1);
    kani::assume(!leaky[0] && !leaky[1]);
    st.check_for_leaks();
    oblige!("C10.store.no_report_when_every_entry_is_released", true);
    std::mem::forget(st);
    reach!("c10_store_scan_silent");
}

//@ props=C10 tier=quick fns=src/rt/object.rs::Store::check_for_leaks bounded=store:entries=2 expect_panic=leaked
#[kani::proof]
#[kani::unwind(7)]
fn c10_store_scan_reports_any_leaking_entry() {
    let (k0, k1): (u8, u8) = (kani::any(), kani::any());
    kani::assume(k0 < 3 && k1 < 3);
    let (st, leaky) = leak_store(k0, k1);
    // a leak anywhere in the store (first or last entry) must be reported
    kani::assume(leaky[0] || leaky[1]);
    st.check_for_leaks();
    crate::must_not_reach!("C10.store.scan_returns_although_an_entry_leaks");
}
