//! Helpers and contracts for `rt::object` (child module of `rt::object`).
use super::*;

impl Ref {
    /// Typed reference to slot `index` without looking at the store (harness construction only).
    pub(crate) fn downcast_unchecked<T>(self) -> Ref<T> {
        Ref { index: self.index, _p: PhantomData }
    }
}

pub(crate) fn ref_index<T>(r: &Ref<T>) -> usize {
    r.index
}

pub(crate) fn mk_ref<T>(index: usize) -> Ref<T> {
    Ref { index, _p: PhantomData }
}

/// Numeric code of an action (views compare codes, not enum values).
pub(crate) fn action_code(a: &Action) -> u8 {
    match a {
        Action::Opaque => 0,
        Action::Atomic(rt::atomic::Action::Load) => 10,
        Action::Atomic(rt::atomic::Action::Store) => 11,
        Action::Atomic(rt::atomic::Action::Rmw) => 12,
        Action::Arc(rt::arc::Action::RefInc) => 20,
        Action::Arc(rt::arc::Action::RefDec) => 21,
        Action::Arc(rt::arc::Action::Inspect) => 22,
        Action::Channel(rt::mpsc::Action::MsgSend) => 30,
        Action::Channel(rt::mpsc::Action::MsgRecv) => 31,
        Action::RwLock(rt::rwlock::Action::Read) => 40,
        Action::RwLock(rt::rwlock::Action::Write) => 41,
    }
}

pub(crate) fn op_view(o: &Operation) -> (usize, u8) {
    (o.obj.index, action_code(&o.action))
}

pub(crate) fn mk_op(index: usize, action: Action) -> Operation {
    Operation { obj: Ref::from_usize(index), action, location: Location::disabled() }
}

pub(crate) fn op_opaque(index: usize) -> Operation {
    mk_op(index, Action::Opaque)
}

pub(crate) fn store_len<T>(s: &Store<T>) -> usize {
    s.entries.len()
}

pub(crate) fn store_entries<T>(s: &Store<T>) -> &Vec<T> {
    &s.entries
}

pub(crate) fn store_entries_mut<T>(s: &mut Store<T>) -> &mut Vec<T> {
    &mut s.entries
}
