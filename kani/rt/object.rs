//! Helpers and contracts for `rt::object` (child module of `rt::object`).
use super::*;

impl Ref {
    /// Typed reference to slot `index` without looking at the store (harness construction only).
    pub(crate) fn downcast_unchecked<T>(self) -> Ref<T> {
        Ref { index: self.index, _p: PhantomData }
    }
}

pub(crate) fn ref_index<T>(r: &Ref<T>) -> usize {
    r.index
}

pub(crate) fn mk_ref<T>(index: usize) -> Ref<T> {
    Ref { index, _p: PhantomData }
}

/// Numeric code of an action (views compare codes, not enum values).
pub(crate) fn action_code(a: &Action) -> u8 {
    match a {
        Action::Opaque => 0,
        Action::Atomic(rt::atomic::Action::Load) => 10,
        Action::Atomic(rt::atomic::Action::Store) => 11,
        Action::Atomic(rt::atomic::Action::Rmw) => 12,
        Action::Arc(rt::arc::Action::RefInc) => 20,
        Action::Arc(rt::arc::Action::RefDec) => 21,
        Action::Arc(rt::arc::Action::Inspect) => 22,
        Action::Channel(rt::mpsc::Action::MsgSend) => 30,
        Action::Channel(rt::mpsc::Action::MsgRecv) => 31,
        Action::RwLock(rt::rwlock::Action::Read) => 40,
        Action::RwLock(rt::rwlock::Action::Write) => 41,
    }
}

pub(crate) fn op_view(o: &Operation) -> (usize, u8) {
    (o.obj.index, action_code(&o.action))
}

pub(crate) fn mk_op(index: usize, action: Action) -> Operation {
    Operation { obj: Ref::from_usize(index), action, location: Location::disabled() }
}

pub(crate) fn op_opaque(index: usize) -> Operation {
    mk_op(index, Action::Opaque)
}

pub(crate) fn store_len<T>(s: &Store<T>) -> usize {
    s.entries.len()
}

pub(crate) fn store_entries<T>(s: &Store<T>) -> &Vec<T> {
    &s.entries
}

pub(crate) fn store_entries_mut<T>(s: &mut Store<T>) -> &mut Vec<T> {
    &mut s.entries
}

// ================================================================================================
// C10: end-of-iteration leak scan of the object store
// ================================================================================================
use crate::{oblige, reach};

/// Store with two entries drawn from {Alloc, Arc, Mutex}; `leaky[i]` tells whether entry i leaks.
fn leak_store(k0: u8, k1: u8) -> (Store, [bool; 2]) {
    let mut st: Store = Store::with_capacity(4);
    let mut leaky = [false; 2];
    let mut add = |st: &mut Store, k: u8, slot: usize| match k {
        0 => {
            let a = rt::alloc::verif_kani::any_alloc_state();
            leaky[slot] = rt::alloc::verif_kani::is_live(&a);
            st.insert(a);
        }
        1 => {
            let a = rt::arc::verif_kani::any_arc_state();
            leaky[slot] = rt::arc::verif_kani::count(&a) != 0;
            st.insert(a);
        }
        _ => {
            st.entries.push(Entry::Mutex(rt::mutex::verif_kani::unlocked_mutex_state()));
        }
    };
    add(&mut st, k0, 0);
    add(&mut st, k1, 1);
    (st, leaky)
}

//@ props=C10 tier=quick fns=src/rt/object.rs::Store::check_for_leaks,src/rt/execution.rs::Execution::check_for_leaks bounded=store:entries=2
#[kani::proof]
#[kani::unwind(7)]
fn c10_store_scan_silent_when_nothing_leaks() {
    let (k0, k1): (u8, u8) = (kani::any(), kani::any());
    kani::assume(k0 < 3 && k1 < 3);
    let (st, leaky) = leak_store(k0, k1);
    kani::assume(!leaky[0] && !leaky[1]);
    st.check_for_leaks();
    oblige!("C10.store.no_report_when_every_entry_is_released", true);
    std::mem::forget(st);
    reach!("c10_store_scan_silent");
}

//@ props=C10 tier=quick fns=src/rt/object.rs::Store::check_for_leaks bounded=store:entries=2 expect_panic=leaked
#[kani::proof]
#[kani::unwind(7)]
fn c10_store_scan_reports_any_leaking_entry() {
    let (k0, k1): (u8, u8) = (kani::any(), kani::any());
    kani::assume(k0 < 3 && k1 < 3);
    let (st, leaky) = leak_store(k0, k1);
    // a leak anywhere in the store (first or last entry) must be reported
    kani::assume(leaky[0] || leaky[1]);
    st.check_for_leaks();
    crate::must_not_reach!("C10.store.scan_returns_although_an_entry_leaks");
}

// ================================================================================================
// C01.dep / C01.cover: the per-object "last dependent access" summaries, through the store dispatch
// ================================================================================================

/// Semantic dependence between two actions on the same object (do the two operations commute?):
/// what POR may assume independent.  Codes as in `action_code`.
fn dependent(kind: u8, a: u8, b: u8) -> bool {
    match kind {
        // mutex / condvar / notify: every pair of operations on the object is dependent
        0 | 1 | 2 => true,
        // rwlock: two reads commute, anything involving a write does not
        3 => !(a == 40 && b == 40),
        // channel: sends are ordered among themselves (FIFO), receives among themselves, and a
        // receive (or emptiness test) does not commute with a send
        4 => true,
        // arc: increments commute with increments and decrements; inspections (strong_count) and
        // uniqueness tests (get_mut = RefDec class) do not commute with modifications
        5 => !((a == 20 && b == 20) || (a == 20 && b == 21) || (a == 21 && b == 20) || (a == 22 && b == 22)),
        _ => true,
    }
}

fn store_with(kind: u8) -> Store {
    let mut st: Store = Store::with_capacity(2);
    match kind {
        0 => { st.entries.push(Entry::Mutex(rt::mutex::verif_kani::unlocked_mutex_state())); }
        1 => { st.entries.push(Entry::Condvar(rt::condvar::verif_kani::empty_condvar_state())); }
        2 => { st.entries.push(Entry::Notify(rt::notify::verif_kani::any_notify_state_no_access())); }
        3 => { st.entries.push(Entry::RwLock(rt::rwlock::verif_kani::free_rwlock_state())); }
        4 => { st.entries.push(Entry::Channel(rt::mpsc::verif_kani::chan_state_with(0))); }
        _ => { st.entries.push(Entry::Arc(rt::arc::verif_kani::any_arc_state())); }
    }
    st
}

fn action_for(kind: u8, c: u8) -> Action {
    match (kind, c) {
        (3, 0) => Action::RwLock(rt::rwlock::Action::Read),
        (3, _) => Action::RwLock(rt::rwlock::Action::Write),
        (4, 0) => Action::Channel(rt::mpsc::Action::MsgSend),
        (4, _) => Action::Channel(rt::mpsc::Action::MsgRecv),
        (5, 0) => Action::Arc(rt::arc::Action::RefInc),
        (5, 1) => Action::Arc(rt::arc::Action::RefDec),
        (5, _) => Action::Arc(rt::arc::Action::Inspect),
        _ => Action::Opaque,
    }
}

/// One recorded access `h` followed by a pending operation `op`: if the two are dependent, the
/// store must hand `h` (same path position, same clock) to the race check of `schedule`.
fn dependence_body(kind: u8, region: u8) {
    let mut st = store_with(kind);
    let (ca, cb): (u8, u8) = (kani::any(), kani::any());
    kani::assume(ca < 3 && cb < 3);
    let (a, b) = (action_for(kind, ca), action_for(kind, cb));
    let (xa, xb) = (action_code(&a), action_code(&b));
    // finding regions (known gaps of the summaries): F4c channel send<->recv, F4b arc RefDec-class after Inspect
    let in_f4c = kind == 4 && xa != xb;
    let in_f4b = kind == 5 && xa == 22 && xb == 21;
    match region {
        0 => kani::assume(!in_f4c && !in_f4b),
        1 => kani::assume(in_f4c),
        _ => kani::assume(in_f4b),
    }
    let v = crate::rt::vv::verif_kani::any_vv();
    let p: usize = kani::any();
    st.set_last_access(mk_op(0, a), p, &v);
    let got = st.last_dependent_access(mk_op(0, b)).map(|x| rt::access::verif_kani::access_parts(x));
    if dependent(kind, xa, xb) {
        oblige!("C01.dep.recorded_access_is_offered_to_every_dependent_later_operation",
            got.map(|(q, w)| q == p && crate::rt::vv::verif_kani::eq(&w, &v)) == Some(true));
    }
    std::mem::forget(st);
    reach!("c01_store_dependence");
}

//@ props=C01,C07,C08,C09,C11 tier=quick fns=src/rt/object.rs::Store::last_dependent_access,src/rt/object.rs::Store::set_last_access,src/rt/mutex.rs::State::set_last_access,src/rt/rwlock.rs::State::set_last_access,src/rt/condvar.rs::State::set_last_access,src/rt/notify.rs::State::set_last_access,src/rt/mpsc.rs::State::set_last_access,src/rt/arc.rs::State::set_last_access
#[kani::proof]
#[kani::unwind(7)]
fn c01_store_dependence__outside() {
    match kani::any::<u8>() {
        0 => dependence_body(0, 0),
        1 => dependence_body(1, 0),
        2 => dependence_body(2, 0),
        3 => dependence_body(3, 0),
        4 => dependence_body(4, 0),
        _ => dependence_body(5, 0),
    }
}

//@ props=C01,C09 tier=quick fns=src/rt/mpsc.rs::State::last_dependent_access,src/rt/mpsc.rs::State::set_last_access finding=F4c expect=C01.dep.recorded_access_is_offered_to_every_dependent_later_operation
#[kani::proof]
#[kani::unwind(7)]
fn c01_store_dependence__inside_channel_send_recv() {
    dependence_body(4, 1);
}

//@ props=C01,C11 tier=quick fns=src/rt/arc.rs::State::last_dependent_access,src/rt/arc.rs::State::set_last_access finding=F4b expect=C01.dep.recorded_access_is_offered_to_every_dependent_later_operation
#[kani::proof]
#[kani::unwind(7)]
fn c01_store_dependence__inside_arc_dec_after_inspect() {
    dependence_body(5, 2);
}
