//! C13 / C14 / C15 / C19 / C01.path / C02.enumerate / C18.limit: contracts for `rt::path`.
//! Child module of `rt::path`.  The branch stack has a concrete depth L per call path (bounded,
//! labelled); the CONTENT of every entry is fully symbolic.
use super::*;
use crate::{must_not_reach, oblige, reach};
use std::mem::ManuallyDrop;

pub(crate) const LMAX: usize = 4;

// ---- views ------------------------------------------------------------------------------------

pub(crate) fn th_code(t: Thread) -> u8 {
    match t {
        Thread::Disabled => 0,
        Thread::Skip => 1,
        Thread::Yield => 2,
        Thread::Pending => 3,
        Thread::Active => 4,
        Thread::Visited => 5,
    }
}
pub(crate) const DISABLED: u8 = 0;
pub(crate) const SKIP: u8 = 1;
pub(crate) const YIELD: u8 = 2;
pub(crate) const PENDING: u8 = 3;
pub(crate) const ACTIVE: u8 = 4;
pub(crate) const VISITED: u8 = 5;

pub(crate) fn th_from(c: u8) -> Thread {
    match c {
        0 => Thread::Disabled,
        1 => Thread::Skip,
        2 => Thread::Yield,
        3 => Thread::Pending,
        4 => Thread::Active,
        _ => Thread::Visited,
    }
}

#[derive(Clone, Copy, PartialEq, Eq)]
pub(crate) enum EntryView {
    Schedule { preemptions: u8, initial_active: Option<u8>, threads: [u8; MAX_THREADS], prev: Option<usize>, exploring: bool },
    Load { values: [u8; MAX_ATOMIC_HISTORY], pos: u8, len: u8, exploring: bool },
    Spurious { spur: bool, exploring: bool },
}

#[derive(Clone, Copy)]
pub(crate) struct PathView {
    pub bound: Option<u8>,
    pub pos: usize,
    pub len: usize,
    pub cap: usize,
    pub entries: [EntryView; LMAX],
    pub exploring: bool,
    pub skipping: bool,
    pub exploring_on_start: bool,
}

pub(crate) fn entry_view(e: &Entry) -> EntryView {
    match e {
        Entry::Schedule(s) => {
            let mut t = [0u8; MAX_THREADS];
            let mut i = 0;
            while i < MAX_THREADS {
                t[i] = th_code(s.threads[i]);
                i += 1;
            }
            EntryView::Schedule {
                preemptions: s.preemptions,
                initial_active: s.initial_active,
                threads: t,
                prev: s.prev.map(|r| crate::rt::object::verif_kani::ref_index(&r)),
                exploring: s.exploring,
            }
        }
        Entry::Load(l) => EntryView::Load { values: l.values, pos: l.pos, len: l.len, exploring: l.exploring },
        Entry::Spurious(s) => EntryView::Spurious { spur: s.spur, exploring: s.exploring },
    }
}

pub(crate) fn path_view(p: &Path) -> PathView {
    let es = crate::rt::object::verif_kani::store_entries(&p.branches);
    let mut entries = [EntryView::Spurious { spur: false, exploring: false }; LMAX];
    let mut i = 0;
    while i < es.len() && i < LMAX {
        entries[i] = entry_view(&es[i]);
        i += 1;
    }
    PathView {
        bound: p.preemption_bound,
        pos: p.pos,
        len: es.len(),
        cap: p.branches.capacity(),
        entries,
        exploring: p.exploring,
        skipping: p.skipping,
        exploring_on_start: p.exploring_on_start,
    }
}

// ---- spec functions over views ----------------------------------------------------------------

pub(crate) fn active_of(t: &[u8; MAX_THREADS]) -> Option<u8> {
    let mut r = None;
    let mut i = MAX_THREADS;
    while i > 0 {
        i -= 1;
        if t[i] == ACTIVE {
            r = Some(i as u8);
        }
    }
    r
}

pub(crate) fn count_of(t: &[u8; MAX_THREADS], c: u8) -> usize {
    let mut n = 0;
    let mut i = 0;
    while i < MAX_THREADS {
        if t[i] == c {
            n += 1;
        }
        i += 1;
    }
    n
}

pub(crate) fn first_of(t: &[u8; MAX_THREADS], c: u8) -> Option<usize> {
    let mut r = None;
    let mut i = MAX_THREADS;
    while i > 0 {
        i -= 1;
        if t[i] == c {
            r = Some(i);
        }
    }
    r
}

/// Spec of `Schedule::preemptions()`.
pub(crate) fn spec_preemptions(e: &EntryView) -> u8 {
    match e {
        EntryView::Schedule { preemptions, initial_active, threads, .. } => {
            if initial_active.is_some() && *initial_active != active_of(threads) {
                preemptions.wrapping_add(1)
            } else {
                *preemptions
            }
        }
        _ => 0,
    }
}

pub(crate) fn is_exploring(e: &EntryView) -> bool {
    match e {
        EntryView::Schedule { exploring, .. } => *exploring,
        EntryView::Load { exploring, .. } => *exploring,
        EntryView::Spurious { exploring, .. } => *exploring,
    }
}

/// An entry still has an unexplored alternative (what `step` may advance to).
pub(crate) fn has_alternative(e: &EntryView) -> bool {
    match e {
        EntryView::Schedule { threads, .. } => count_of(threads, PENDING) > 0,
        EntryView::Load { pos, len, .. } => (*pos as usize) + 1 < *len as usize,
        EntryView::Spurious { spur, .. } => !*spur,
    }
}

/// The DFS successor of one entry: its next alternative.
pub(crate) fn advanced(e: &EntryView) -> EntryView {
    match e {
        EntryView::Schedule { preemptions, initial_active, threads, prev, exploring } => {
            let mut t = *threads;
            if let Some(a) = first_of(&t, ACTIVE) {
                t[a] = VISITED;
            }
            if let Some(p) = first_of(&t, PENDING) {
                t[p] = ACTIVE;
            }
            EntryView::Schedule { preemptions: *preemptions, initial_active: *initial_active, threads: t, prev: *prev, exploring: *exploring }
        }
        EntryView::Load { values, pos, len, exploring } => EntryView::Load { values: *values, pos: pos.wrapping_add(1), len: *len, exploring: *exploring },
        EntryView::Spurious { exploring, .. } => EntryView::Spurious { spur: true, exploring: *exploring },
    }
}

/// Index of the closest Schedule entry strictly below `i`.
pub(crate) fn prev_schedule(v: &PathView, i: usize) -> Option<usize> {
    let mut r = None;
    let mut j = 0;
    while j < i && j < LMAX {
        if matches!(v.entries[j], EntryView::Schedule { .. }) {
            r = Some(j);
        }
        j += 1;
    }
    r
}

/// Validity predicate `wf_path`.
pub(crate) fn wf_path(v: &PathView) -> bool {
    let mut ok = v.pos <= v.len && v.len <= v.cap && v.len <= LMAX;
    let mut i = 0;
    while i < LMAX {
        if i < v.len {
            match v.entries[i] {
                EntryView::Schedule { preemptions, initial_active, threads, prev, .. } => {
                    // A6: the u8 preemption counter does not overflow (debug builds would panic)
                    // every committed schedule branch has exactly one thread being explored; only the
                    // deepest one may have none (execution finished or deadlocked there)
                    let nact = count_of(&threads, ACTIVE);
                    ok = ok && (nact == 1 || (nact == 0 && i + 1 == v.len)) && prev == prev_schedule(v, i) && preemptions < u8::MAX;
                    if let Some(a) = initial_active {
                        ok = ok && (a as usize) < MAX_THREADS;
                    }
                    if let Some(b) = v.bound {
                        // C15: neither the current choice nor any pending alternative exceeds the bound
                        ok = ok && preemptions <= b;
                        if preemptions == b && initial_active.is_some() {
                            let mut t = 0;
                            while t < MAX_THREADS {
                                if (threads[t] == ACTIVE || threads[t] == PENDING) && Some(t as u8) != initial_active {
                                    ok = false;
                                }
                                t += 1;
                            }
                        }
                    }
                }
                EntryView::Load { values, pos, len, .. } => {
                    ok = ok && pos < len && (len as usize) <= MAX_ATOMIC_HISTORY;
                    let mut k = 0;
                    while k < MAX_ATOMIC_HISTORY {
                        ok = ok && (values[k] as usize) < MAX_ATOMIC_HISTORY;
                        k += 1;
                    }
                }
                EntryView::Spurious { .. } => {}
            }
        }
        i += 1;
    }
    ok
}

// ---- generators -------------------------------------------------------------------------------

pub(crate) fn any_thread_status() -> Thread {
    let c: u8 = kani::any();
    kani::assume(c <= 5);
    th_from(c)
}

pub(crate) fn any_entry() -> Entry {
    match kani::any::<u8>() {
        0 => Entry::Schedule(Schedule {
            preemptions: kani::any(),
            initial_active: kani::any(),
            threads: [any_thread_status(), any_thread_status(), any_thread_status(), any_thread_status(), any_thread_status()],
            prev: if kani::any() { Some(crate::rt::object::verif_kani::mk_ref(kani::any())) } else { None },
            exploring: kani::any(),
        }),
        1 => Entry::Load(Load { values: kani::any(), pos: kani::any(), len: kani::any(), exploring: kani::any() }),
        _ => Entry::Spurious(Spurious { spur: kani::any(), exploring: kani::any() }),
    }
}

/// Path with exactly `l` symbolic entries, capacity `cap`, everything else symbolic.
pub(crate) fn any_path(l: usize, cap: usize) -> ManuallyDrop<Path> {
    let mut branches: object::Store<Entry> = object::Store::with_capacity(cap);
    let mut i = 0;
    while i < l {
        crate::rt::object::verif_kani::store_entries_mut(&mut branches).push(any_entry());
        i += 1;
    }
    ManuallyDrop::new(Path {
        preemption_bound: kani::any(),
        pos: kani::any(),
        branches,
        exploring: kani::any(),
        skipping: kani::any(),
        exploring_on_start: kani::any(),
    })
}

// ================================================================================================
// C14 / C19.frozen / C13.func: Path::step is exactly the DFS successor
// ================================================================================================

fn step_body(l: usize) {
    let mut p = any_path(l, LMAX);
    let old = path_view(&p);
    kani::assume(wf_path(&old));
    let ret = p.step();
    let new = path_view(&p);
    // k = deepest exploring entry that still has an alternative
    let mut k: Option<usize> = None;
    let mut i = 0;
    while i < l {
        if is_exploring(&old.entries[i]) && has_alternative(&old.entries[i]) {
            k = Some(i);
        }
        i += 1;
    }
    oblige!("C14.step.resets_cursor_and_flags", new.pos == 0 && new.exploring == old.exploring_on_start && !new.skipping
        && new.exploring_on_start == old.exploring_on_start && new.bound == old.bound);
    oblige!("C14.step.false_iff_no_exploring_entry_has_an_alternative", ret == k.is_some());
    if let Some(k) = k {
        oblige!("C14.step.pops_everything_above_the_advanced_entry", new.len == k + 1);
        let mut j = 0;
        while j < l {
            if j < k {
                oblige!("C14.step.prefix_untouched", new.entries[j] == old.entries[j]);
            }
            if j == k {
                oblige!("C14.step.advances_deepest_open_entry_to_its_next_alternative", new.entries[j] == advanced(&old.entries[j]));
            }
            if j > k {
                oblige!("C19.frozen.popped_entries_were_exhausted_or_not_exploring", !is_exploring(&old.entries[j]) || !has_alternative(&old.entries[j]));
            }
            j += 1;
        }
        oblige!("C14.step.preserves_wf_path", wf_path(&new));
    }
    reach!("c14_step");
}

//@ props=C14,C19,C13,C01,C02 tier=quick fns=src/rt/path.rs::Path::step,src/rt/object.rs::Store::truncate,src/rt/object.rs::Ref::downcast bounded=path:depth<=3
#[kani::proof]
#[kani::unwind(8)]
fn c14_path_step() {
    match kani::any::<u8>() {
        0 => step_body(0),
        1 => step_body(1),
        2 => step_body(2),
        _ => step_body(3),
    }
}

//@ props=C14,C19,C13 tier=thorough fns=src/rt/path.rs::Path::step bounded=path:depth=4 timeout=3000
#[kani::proof]
#[kani::unwind(8)]
fn c14_path_step_depth4() {
    step_body(4);
}

// ================================================================================================
// C13.replay: a stored prefix is replayed verbatim before branching anew
// ================================================================================================

fn replay_body(l: usize) {
    let mut p = any_path(l, LMAX);
    let old = path_view(&p);
    kani::assume(wf_path(&old) && old.pos < old.len);
    let at = old.pos;
    let e = old.entries[at]; // by value
    let eid = execution::Id::new();
    match e {
        EntryView::Schedule { threads, .. } => {
            let r = p.branch_thread(eid, [Thread::Disabled; 0].into_iter());
            oblige!("C13.replay.branch_thread_returns_recorded_active_thread", r.map(|i| i.as_usize() as u8) == active_of(&threads));
        }
        EntryView::Load { values, pos, .. } => {
            let r = p.branch_load();
            let want = values[pos as usize];
            oblige!("C13.replay.branch_load_returns_recorded_choice", r == want as usize);
        }
        EntryView::Spurious { spur, .. } => {
            let r = p.branch_spurious();
            oblige!("C13.replay.branch_spurious_returns_recorded_choice", r == spur);
        }
    }
    let new = path_view(&p);
    oblige!("C13.replay.cursor_advances_by_one", new.pos == at + 1 && new.len == old.len);
    let mut j = 0;
    while j < l {
        oblige!("C13.replay.stored_decisions_untouched", new.entries[j] == old.entries[j]);
        j += 1;
    }
    oblige!("C13.replay.flags_untouched", new.exploring == old.exploring && new.skipping == old.skipping
        && new.exploring_on_start == old.exploring_on_start && new.bound == old.bound);
    reach!("c13_replay");
}

//@ props=C13,C02 tier=quick fns=src/rt/path.rs::Path::branch_thread,src/rt/path.rs::Path::branch_load,src/rt/path.rs::Path::branch_spurious,src/rt/path.rs::Path::is_traversed bounded=path:depth<=3
#[kani::proof]
#[kani::unwind(8)]
fn c13_path_replay() {
    match kani::any::<u8>() {
        0 => replay_body(1),
        1 => replay_body(2),
        _ => replay_body(3),
    }
}

//@ props=C13 tier=quick fns=src/rt/path.rs::Path::branch_load,src/rt/path.rs::Path::branch_spurious,src/rt/path.rs::Path::branch_thread bounded=path:depth=2 expect_panic=expect_failed
#[kani::proof]
#[kani::unwind(8)]
fn c13_path_replay_kind_mismatch_panics() {
    // a non-deterministic model (the recorded branch kind differs from the one requested) is reported
    let mut p = any_path(2, LMAX);
    let old = path_view(&p);
    kani::assume(wf_path(&old) && old.pos < old.len);
    let e = old.entries[old.pos];
    match kani::any::<u8>() {
        0 => {
            kani::assume(!matches!(e, EntryView::Load { .. }));
            let _ = p.branch_load();
        }
        1 => {
            kani::assume(!matches!(e, EntryView::Spurious { .. }));
            let _ = p.branch_spurious();
        }
        _ => {
            kani::assume(!matches!(e, EntryView::Schedule { .. }));
            let _ = p.branch_thread(execution::Id::new(), [Thread::Disabled; 0].into_iter());
        }
    }
    must_not_reach!("C13.replay.kind_mismatch_goes_unreported");
}

// ================================================================================================
// New branch points: C02.enumerate (push_load), C08 (branch_spurious), C15 / C01 (branch_thread)
// ================================================================================================

/// Every schedule branch recorded so far has its chosen thread (a new branch point is only reached
/// after the previous schedule decision put some thread on the CPU).
pub(crate) fn all_committed(v: &PathView) -> bool {
    let mut ok = true;
    let mut i = 0;
    while i < LMAX {
        if i < v.len {
            if let EntryView::Schedule { threads, .. } = v.entries[i] {
                ok = ok && count_of(&threads, ACTIVE) == 1;
            }
        }
        i += 1;
    }
    ok
}

fn new_entry_body(l: usize) {
    let mut p = any_path(l, LMAX);
    let old = path_view(&p);
    kani::assume(wf_path(&old) && all_committed(&old) && old.pos == old.len && old.len < old.cap);
    match kani::any::<u8>() {
        0 => {
            // push_load(seed); branch_load()
            let n: usize = kani::any();
            kani::assume(n >= 1 && n <= MAX_ATOMIC_HISTORY);
            let seed: [u8; MAX_ATOMIC_HISTORY] = kani::any();
            let mut k = 0;
            while k < MAX_ATOMIC_HISTORY {
                kani::assume((seed[k] as usize) < MAX_ATOMIC_HISTORY);
                k += 1;
            }
            p.push_load(&seed[..n]);
            let mid = path_view(&p);
            oblige!("C02.enumerate.push_load_records_exactly_the_candidates_in_order", mid.len == old.len + 1 && mid.pos == old.pos && match mid.entries[l] {
                EntryView::Load { values, pos, len, exploring } => {
                    let mut ok = pos == 0 && len as usize == n && exploring == old.exploring;
                    let mut k = 0;
                    while k < MAX_ATOMIC_HISTORY {
                        ok = ok && (k >= n || values[k] == seed[k]);
                        k += 1;
                    }
                    ok
                }
                _ => false,
            });
            let r = p.branch_load();
            oblige!("C02.enumerate.first_iteration_reads_first_candidate", r == seed[0] as usize && path_view(&p).pos == old.pos + 1);
            oblige!("C02.enumerate.preserves_wf_path", wf_path(&path_view(&p)));
        }
        1 => {
            let r = p.branch_spurious();
            let new = path_view(&p);
            oblige!("C08.spurious.new_branch_starts_non_spurious", !r && new.len == old.len + 1 && new.pos == old.pos + 1
                && new.entries[l] == (EntryView::Spurious { spur: false, exploring: old.exploring }));
        }
        _ => {
            // branch_thread with a seed of 3 thread statuses as `schedule` produces them:
            // at most one Active, the rest Disabled / Skip / Yield
            let s: [u8; 3] = kani::any();
            kani::assume(s[0] <= ACTIVE && s[1] <= ACTIVE && s[2] <= ACTIVE && s[0] != PENDING && s[1] != PENDING && s[2] != PENDING);
            let nact = (s[0] == ACTIVE) as u8 + (s[1] == ACTIVE) as u8 + (s[2] == ACTIVE) as u8;
            kani::assume(nact <= 1);
            // C15 precondition (what `schedule` guarantees through wf_path): the previous schedule can take one more preemption-free step
            let prev = prev_schedule(&old, l);
            let prev_e = match prev { Some(i) => Some(old.entries[i]), None => None };
            if let (Some(b), Some(pe)) = (old.bound, prev_e) {
                kani::assume(spec_preemptions(&pe) <= b);
            }
            if let Some(pe) = prev_e {
                kani::assume(spec_preemptions(&pe) < u8::MAX); // A6
            }
            let eid = execution::Id::new();
            let r = p.branch_thread(eid, [th_from(s[0]), th_from(s[1]), th_from(s[2])].into_iter());
            let new = path_view(&p);
            let mut want = [DISABLED; MAX_THREADS];
            want[0] = s[0];
            want[1] = s[1];
            want[2] = s[2];
            if nact == 0 {
                // no runnable thread: a yielded thread is re-activated (C18: no false deadlock)
                if let Some(y) = first_of(&want, YIELD) {
                    want[y] = ACTIVE;
                }
            }
            let act = active_of(&want);
            let want_initial = match prev_e {
                Some(EntryView::Schedule { threads, .. }) => if act == active_of(&threads) { act } else { None },
                _ => act,
            };
            let want_preemptions = match prev_e { Some(pe) => spec_preemptions(&pe), None => 0 };
            oblige!("C01.branch_thread.records_seed_and_returns_its_active_thread", r.map(|i| i.as_usize() as u8) == act
                && new.len == old.len + 1 && new.pos == old.pos + 1);
            oblige!("C15.branch_thread.preemption_accounting", new.entries[l] == (EntryView::Schedule {
                preemptions: want_preemptions, initial_active: want_initial, threads: want, prev, exploring: old.exploring }));
            oblige!("C15.branch_thread.preserves_wf_path", wf_path(&new));
        }
    }
    let new = path_view(&p);
    let mut j = 0;
    while j < l {
        oblige!("C14.new_branch.earlier_decisions_untouched", new.entries[j] == old.entries[j]);
        j += 1;
    }
    reach!("c_path_new_entry");
}

//@ props=C02,C08,C15,C01,C14,C19 tier=quick fns=src/rt/path.rs::Path::push_load,src/rt/path.rs::Path::branch_load,src/rt/path.rs::Path::branch_spurious,src/rt/path.rs::Path::branch_thread,src/rt/path.rs::Path::last_schedule,src/rt/path.rs::Schedule::preemptions,src/rt/path.rs::Schedule::active_thread_index bounded=path:depth<=2,seed_threads:3
#[kani::proof]
#[kani::unwind(9)]
fn c_path_new_branch_points() {
    match kani::any::<u8>() {
        0 => new_entry_body(0),
        1 => new_entry_body(1),
        _ => new_entry_body(2),
    }
}

//@ props=C18,C19 tier=quick fns=src/rt/path.rs::assert_path_len,src/rt/path.rs::Path::push_load,src/rt/path.rs::Path::branch_spurious,src/rt/path.rs::Path::branch_thread bounded=path:depth=2 expect_panic=Model_exceeded_maximum_number_of_branches
#[kani::proof]
#[kani::unwind(9)]
fn c19_path_branch_limit_panics() {
    // len == capacity (max_branches reached) and a NEW branch point is needed => documented panic
    let mut p = any_path(2, 2);
    let old = path_view(&p);
    kani::assume(wf_path(&old) && old.pos == old.len && old.cap == 2);
    match kani::any::<u8>() {
        0 => p.push_load(&[0u8][..]),
        1 => {
            let _ = p.branch_spurious();
        }
        _ => {
            let _ = p.branch_thread(execution::Id::new(), [Thread::Active].into_iter());
        }
    }
    must_not_reach!("C19.max_branches.exceeded_without_the_documented_panic");
}

// ================================================================================================
// C19: exploration-control flag machine
// ================================================================================================

//@ props=C19 tier=quick fns=src/rt/path.rs::Path::explore_state,src/rt/path.rs::Path::critical,src/rt/path.rs::Path::skip_branch,src/rt/path.rs::Path::new bounded=path:depth=1
#[kani::proof]
#[kani::unwind(8)]
fn c19_path_flags() {
    let mut p = any_path(1, LMAX);
    let old = path_view(&p);
    match kani::any::<u8>() {
        0 => {
            kani::assume(old.skipping || !old.exploring);
            p.explore_state();
            let n = path_view(&p);
            oblige!("C19.explore.enables_exploring_unless_skipping", n.skipping == old.skipping && n.exploring == (if old.skipping { old.exploring } else { true }));
        }
        1 => {
            kani::assume(old.skipping || old.exploring);
            p.critical();
            let n = path_view(&p);
            oblige!("C19.stop_exploring.disables_exploring_unless_skipping", n.skipping == old.skipping && n.exploring == (if old.skipping { old.exploring } else { false }));
        }
        _ => {
            p.skip_branch();
            let n = path_view(&p);
            oblige!("C19.skip_branch.disables_exploring_for_good", n.skipping && !n.exploring);
            // ... and a later explore() is a no-op
            p.explore_state();
            let n2 = path_view(&p);
            oblige!("C19.skip_branch.explore_cannot_reenable", n2.skipping && !n2.exploring);
        }
    }
    let n = path_view(&p);
    oblige!("C19.flags.touch_nothing_else", n.pos == old.pos && n.len == old.len && n.entries[0] == old.entries[0]
        && n.exploring_on_start == old.exploring_on_start && n.bound == old.bound);
    let (mb, pb, ex): (usize, Option<u8>, bool) = (kani::any(), kani::any(), kani::any());
    kani::assume(mb <= 4);
    let fresh = ManuallyDrop::new(Path::new(mb, pb, ex));
    let f = path_view(&fresh);
    oblige!("C19.new.configuration_recorded", f.pos == 0 && f.len == 0 && f.cap >= mb && f.bound == pb && f.exploring == ex && f.exploring_on_start == ex && !f.skipping);
    reach!("c19_path_flags");
}

// ================================================================================================
// C01.path.backtrack / C15 / C19.frozen: backtrack-point insertion
// ================================================================================================

/// Spec of `Schedule::backtrack` on a view (pre: it is a Schedule entry with `exploring`).
pub(crate) fn spec_sched_backtrack(e: &EntryView, t: usize, bound: Option<u8>) -> EntryView {
    match e {
        EntryView::Schedule { preemptions, initial_active, threads, prev, exploring } => {
            let mut th = *threads;
            let refused = match bound { Some(b) => *preemptions == b, None => false };
            if !refused && t < MAX_THREADS {
                if th[t] != DISABLED {
                    if th[t] == SKIP {
                        th[t] = PENDING;
                    }
                } else {
                    let mut i = 0;
                    while i < MAX_THREADS {
                        if th[i] == SKIP {
                            th[i] = PENDING;
                        }
                        i += 1;
                    }
                }
            }
            EntryView::Schedule { preemptions: *preemptions, initial_active: *initial_active, threads: th, prev: *prev, exploring: *exploring }
        }
        other => *other,
    }
}

fn sched_active(e: &EntryView) -> Option<u8> {
    match e {
        EntryView::Schedule { threads, .. } => active_of(threads),
        _ => None,
    }
}
fn sched_prev(e: &EntryView) -> Option<usize> {
    match e {
        EntryView::Schedule { prev, .. } => *prev,
        _ => None,
    }
}

/// Element `idx` of the entry array, selected with a concrete loop (no symbolic-index references).
fn entry_at(es: &[EntryView; LMAX], idx: usize) -> EntryView {
    let mut r = es[0];
    let mut j = 0;
    while j < LMAX {
        if j == idx {
            r = es[j];
        }
        j += 1;
    }
    r
}

/// Spec of `Path::backtrack(point, t)`: which entries get `Schedule::backtrack` applied.
pub(crate) fn spec_backtrack_marks(v: &PathView, point: usize) -> [bool; LMAX] {
    let mut mark = [false; LMAX];
    // nearest exploring Schedule at or below `point`
    let mut target: Option<usize> = None;
    let mut i = 0;
    while i < LMAX {
        if i <= point && i < v.len && matches!(v.entries[i], EntryView::Schedule { exploring: true, .. }) {
            target = Some(i);
        }
        i += 1;
    }
    if let Some(tg) = target {
        let mut j = 0;
        while j < LMAX {
            if j == tg {
                mark[j] = true;
            }
            j += 1;
        }
        if v.bound.is_some() {
            // conservative extra point (preemption-bounded DPOR): walk the prev chain
            let mut cur = sched_prev(&entry_at(&v.entries, tg));
            let mut fuel = LMAX;
            while fuel > 0 {
                fuel -= 1;
                if let Some(c) = cur {
                    let ce = entry_at(&v.entries, c);
                    let mut hit = false;
                    match sched_prev(&ce) {
                        Some(pr) => {
                            let pe = entry_at(&v.entries, pr);
                            if sched_active(&ce) != sched_active(&pe) && is_exploring(&ce) {
                                hit = true;
                                cur = None;
                            } else {
                                cur = Some(pr);
                            }
                        }
                        None => {
                            hit = is_exploring(&ce);
                            cur = None;
                        }
                    }
                    if hit {
                        let mut j = 0;
                        while j < LMAX {
                            if j == c {
                                mark[j] = true;
                            }
                            j += 1;
                        }
                    }
                }
            }
        }
    }
    mark
}

impl Schedule {
    /// Contract model of `active_thread_index` (proved equal to the real function: c15_schedule_preemptions).
    pub(crate) fn active_thread_index_model(&self) -> Option<u8> {
        let mut r = None;
        let mut i = MAX_THREADS;
        while i > 0 {
            i -= 1;
            if self.threads[i] == Thread::Active {
                r = Some(i as u8);
            }
        }
        r
    }
}

/// `point` (the path position of an earlier access, passed by `schedule`) is path-concrete: the
/// walk-down loop of `Path::backtrack` indexes the branch vector with it.
fn backtrack_body(l: usize, point: usize) {
    let mut p = any_path(l, LMAX);
    let old = path_view(&p);
    kani::assume(wf_path(&old));
    let t: usize = kani::any();
    kani::assume(t < MAX_THREADS);
    let marks = spec_backtrack_marks(&old, point);
    p.backtrack(point, thread::Id::new(execution::Id::new(), t));
    let new = path_view(&p);
    let mut j = 0;
    while j < l {
        let want_j = if marks[j] { spec_sched_backtrack(&old.entries[j], t, old.bound) } else { old.entries[j] };
        oblige!("C01.path.backtrack.marks_exactly_the_specified_backtrack_points", new.entries[j] == want_j);
        // C19.frozen: an entry recorded with exploration disabled is never touched
        oblige!("C19.frozen.backtrack_never_marks_a_non_exploring_entry", is_exploring(&old.entries[j]) || new.entries[j] == old.entries[j]);
        // only Skip -> Pending transitions
        if let (EntryView::Schedule { threads: a, .. }, EntryView::Schedule { threads: b, .. }) = (old.entries[j], new.entries[j]) {
            let mut k = 0;
            while k < MAX_THREADS {
                oblige!("C14.backtrack.only_skip_to_pending_transitions", a[k] == b[k] || (a[k] == SKIP && b[k] == PENDING));
                k += 1;
            }
        }
        j += 1;
    }
    oblige!("C01.path.backtrack.frame", new.len == old.len && new.pos == old.pos && new.exploring == old.exploring && new.skipping == old.skipping);
    oblige!("C15.backtrack.preserves_wf_path_with_bound", wf_path(&new));
    reach!("c01_path_backtrack");
}

//@ props=C01,C15,C19,C14 tier=quick fns=src/rt/path.rs::Path::backtrack,src/rt/path.rs::Schedule::backtrack,src/rt/path.rs::Thread::explore bounded=path:depth=1
#[kani::proof]
#[kani::unwind(8)]
#[kani::stub(crate::rt::path::Schedule::active_thread_index, crate::rt::path::Schedule::active_thread_index_model)]
fn c01_path_backtrack() {
    backtrack_body(1, 0);
}

//@ props=C01,C15,C19,C14 tier=quick fns=src/rt/path.rs::Path::backtrack,src/rt/path.rs::Schedule::backtrack bounded=path:depth=2 models=Schedule::active_thread_index=c15_schedule_preemptions
#[kani::proof]
#[kani::unwind(8)]
#[kani::stub(crate::rt::path::Schedule::active_thread_index, crate::rt::path::Schedule::active_thread_index_model)]
fn c01_path_backtrack_d2() {
    if kani::any() { backtrack_body(2, 0) } else { backtrack_body(2, 1) }
}

//@ props=C01,C15,C19,C14 tier=thorough timeout=3000 fns=src/rt/path.rs::Path::backtrack,src/rt/path.rs::Schedule::backtrack bounded=path:depth=3 models=Schedule::active_thread_index=c15_schedule_preemptions
#[kani::proof]
#[kani::unwind(8)]
#[kani::stub(crate::rt::path::Schedule::active_thread_index, crate::rt::path::Schedule::active_thread_index_model)]
fn c01_path_backtrack_d3() {
    match kani::any::<u8>() {
        0 => backtrack_body(3, 0),
        1 => backtrack_body(3, 1),
        _ => backtrack_body(3, 2),
    }
}

//@ props=C01,C15,C19 tier=deep timeout=20000 fns=src/rt/path.rs::Path::backtrack,src/rt/path.rs::Schedule::backtrack bounded=path:depth=4
#[kani::proof]
#[kani::unwind(8)]
#[kani::stub(crate::rt::path::Schedule::active_thread_index, crate::rt::path::Schedule::active_thread_index_model)]
fn c01_path_backtrack_depth4() {
    match kani::any::<u8>() {
        0 => backtrack_body(4, 0),
        1 => backtrack_body(4, 1),
        2 => backtrack_body(4, 2),
        _ => backtrack_body(4, 3),
    }
}

//@ props=C15 tier=quick fns=src/rt/path.rs::Schedule::preemptions,src/rt/path.rs::Schedule::active_thread_index
#[kani::proof]
#[kani::unwind(8)]
fn c15_schedule_preemptions() {
    let e = any_entry();
    if let Entry::Schedule(s) = &e {
        let v = entry_view(&e);
        kani::assume(s.preemptions < u8::MAX);
        oblige!("C15.preemptions.counts_a_switch_away_from_a_thread_that_could_continue", s.preemptions() == spec_preemptions(&v));
        if let EntryView::Schedule { threads, .. } = v {
            oblige!("C15.active_thread_index.first_active", s.active_thread_index() == active_of(&threads));
        }
        reach!("c15_schedule_preemptions");
    }
}



impl Path {
    /// Contract model of `Path::backtrack` (proved for the real function: c01_path_backtrack*):
    /// `Schedule::backtrack(thread)` is applied to exactly the entries `spec_backtrack_marks` names.
    pub(crate) fn backtrack_model(&mut self, point: usize, thread_id: thread::Id) {
        let v = path_view(self);
        let marks = spec_backtrack_marks(&v, point);
        let bound = self.preemption_bound;
        let es = crate::rt::object::verif_kani::store_entries_mut(&mut self.branches);
        let mut j = 0;
        while j < LMAX {
            if j < es.len() && marks[j] {
                if let Entry::Schedule(s) = &mut es[j] {
                    s.backtrack(thread_id, bound);
                }
            }
            j += 1;
        }
    }
}

/// A path whose only entry is a recorded Spurious branch with the given choice, positioned at it.
pub(crate) fn path_with_spurious(spur: bool) -> ManuallyDrop<Path> {
    let mut branches: object::Store<Entry> = object::Store::with_capacity(4);
    crate::rt::object::verif_kani::store_entries_mut(&mut branches).push(Entry::Spurious(Spurious { spur, exploring: true }));
    ManuallyDrop::new(Path { preemption_bound: None, pos: 0, branches, exploring: true, skipping: false, exploring_on_start: true })
}
