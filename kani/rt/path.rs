//! C13 / C14 / C15 / C19 / C01.path / C02.enumerate / C18.limit: contracts for `rt::path`.
//! Child module of `rt::path`.  The branch stack has a concrete depth L per call path (bounded,
//! labelled); the CONTENT of every entry is fully symbolic.
use super::*;
use crate::{must_not_reach, oblige, reach};
use std::mem::ManuallyDrop;

pub(crate) const LMAX: usize = 4;

// ---- views ------------------------------------------------------------------------------------

pub(crate) fn th_code(t: Thread) -> u8 {
    match t {
        Thread::Disabled => 0,
        Thread::Skip => 1,
        Thread::Yield => 2,
        Thread::Pending => 3,
        Thread::Active => 4,
        Thread::Visited => 5,
    }
}
pub(crate) const DISABLED: u8 = 0;
pub(crate) const SKIP: u8 = 1;
pub(crate) const YIELD: u8 = 2;
pub(crate) const PENDING: u8 = 3;
pub(crate) const ACTIVE: u8 = 4;
pub(crate) const VISITED: u8 = 5;

pub(crate) fn th_from(c: u8) -> Thread {
    match c {
        0 => Thread::Disabled,
        1 => Thread::Skip,
        2 => Thread::Yield,
        3 => Thread::Pending,
        4 => Thread::Active,
        _ => Thread::Visited,
    }
}

#[derive(Clone, Copy, PartialEq, Eq)]
pub(crate) enum EntryView {
    Schedule { preemptions: u8, initial_active: Option<u8>, threads: [u8; MAX_THREADS], prev: Option<usize>, exploring: bool },
    Load { values: [u8; MAX_ATOMIC_HISTORY], pos: u8, len: u8, exploring: bool },
    Spurious { spur: bool, exploring: bool },
}

#[derive(Clone, Copy)]
pub(crate) struct PathView {
    pub bound: Option<u8>,
    pub pos: usize,
    pub len: usize,
    pub cap: usize,
    pub entries: [EntryView; LMAX],
    pub exploring: bool,
    pub skipping: bool,
    pub exploring_on_start: bool,
}

pub(crate) fn entry_view(e: &Entry) -> EntryView {
    match e {
        Entry::Schedule(s) => {
            let mut t = [0u8; MAX_THREADS];
            let mut i = 0;
            while i < MAX_THREADS {
                t[i] = th_code(s.threads[i]);
                i += 1;
            }
            EntryView::Schedule {
                preemptions: s.preemptions,
                initial_active: s.initial_active,
                threads: t,
                prev: s.prev.map(|r| crate::rt::object::verif_kani::ref_index(&r)),
                exploring: s.exploring,
            }
        }
        Entry::Load(l) => EntryView::Load { values: l.values, pos: l.pos, len: l.len, exploring: l.exploring },
        Entry::Spurious(s) => EntryView::Spurious { spur: s.spur, exploring: s.exploring },
    }
}

pub(crate) fn path_view(p: &Path) -> PathView {
    let es = crate::rt::object::verif_kani::store_entries(&p.branches);
    let mut entries = [EntryView::Spurious { spur: false, exploring: false }; LMAX];
    let mut i = 0;
    while i < es.len() && i < LMAX {
        entries[i] = entry_view(&es[i]);
        i += 1;
    }
    PathView {
        bound: p.preemption_bound,
        pos: p.pos,
        len: es.len(),
        cap: p.branches.capacity(),
        entries,
        exploring: p.exploring,
        skipping: p.skipping,
        exploring_on_start: p.exploring_on_start,
    }
}

// ---- spec functions over views ----------------------------------------------------------------

pub(crate) fn active_of(t: &[u8; MAX_THREADS]) -> Option<u8> {
    let mut r = None;
    let mut i = MAX_THREADS;
    while i > 0 {
        i -= 1;
        if t[i] == ACTIVE {
            r = Some(i as u8);
        }
    }
    r
}

pub(crate) fn count_of(t: &[u8; MAX_THREADS], c: u8) -> usize {
    let mut n = 0;
    let mut i = 0;
    while i < MAX_THREADS {
        if t[i] == c {
            n += 1;
        }
        i += 1;
    }
    n
}

pub(crate) fn first_of(t: &[u8; MAX_THREADS], c: u8) -> Option<usize> {
    let mut r = None;
    let mut i = MAX_THREADS;
    while i > 0 {
        i -= 1;
        if t[i] == c {
            r = Some(i);
        }
    }
    r
}

/// Spec of `Schedule::preemptions()`.
pub(crate) fn spec_preemptions(e: &EntryView) -> u8 {
    match e {
        EntryView::Schedule { preemptions, initial_active, threads, .. } => {
            if initial_active.is_some() && *initial_active != active_of(threads) {
                preemptions.wrapping_add(1)
            } else {
                *preemptions
            }
        }
        _ => 0,
    }
}

pub(crate) fn is_exploring(e: &EntryView) -> bool {
    match e {
        EntryView::Schedule { exploring, .. } => *exploring,
        EntryView::Load { exploring, .. } => *exploring,
        EntryView::Spurious { exploring, .. } => *exploring,
    }
}

/// An entry still has an unexplored alternative (what `step` may advance to).
pub(crate) fn has_alternative(e: &EntryView) -> bool {
    match e {
        EntryView::Schedule { threads, .. } => count_of(threads, PENDING) > 0,
        EntryView::Load { pos, len, .. } => (*pos as usize) + 1 < *len as usize,
        EntryView::Spurious { spur, .. } => !*spur,
    }
}

/// The DFS successor of one entry: its next alternative.
pub(crate) fn advanced(e: &EntryView) -> EntryView {
    match e {
        EntryView::Schedule { preemptions, initial_active, threads, prev, exploring } => {
            let mut t = *threads;
            if let Some(a) = first_of(&t, ACTIVE) {
                t[a] = VISITED;
            }
            if let Some(p) = first_of(&t, PENDING) {
                t[p] = ACTIVE;
            }
            EntryView::Schedule { preemptions: *preemptions, initial_active: *initial_active, threads: t, prev: *prev, exploring: *exploring }
        }
        EntryView::Load { values, pos, len, exploring } => EntryView::Load { values: *values, pos: pos.wrapping_add(1), len: *len, exploring: *exploring },
        EntryView::Spurious { exploring, .. } => EntryView::Spurious { spur: true, exploring: *exploring },
    }
}

/// Index of the closest Schedule entry strictly below `i`.
pub(crate) fn prev_schedule(v: &PathView, i: usize) -> Option<usize> {
    let mut r = None;
    let mut j = 0;
    while j < i && j < LMAX {
        if matches!(v.entries[j], EntryView::Schedule { .. }) {
            r = Some(j);
        }
        j += 1;
    }
    r
}

/// Validity predicate `wf_path`.
pub(crate) fn wf_path(v: &PathView) -> bool {
    let mut ok = v.pos <= v.len && v.len <= v.cap && v.len <= LMAX;
    let mut i = 0;
    while i < LMAX {
        if i < v.len {
            match v.entries[i] {
                EntryView::Schedule { preemptions, initial_active, threads, prev, .. } => {
                    ok = ok && count_of(&threads, ACTIVE) <= 1 && prev == prev_schedule(v, i);
                    if let Some(a) = initial_active {
                        ok = ok && (a as usize) < MAX_THREADS;
                    }
                    if let Some(b) = v.bound {
                        // C15: neither the current choice nor any pending alternative exceeds the bound
                        ok = ok && preemptions <= b;
                        if preemptions == b && initial_active.is_some() {
                            let mut t = 0;
                            while t < MAX_THREADS {
                                if (threads[t] == ACTIVE || threads[t] == PENDING) && Some(t as u8) != initial_active {
                                    ok = false;
                                }
                                t += 1;
                            }
                        }
                    }
                }
                EntryView::Load { values, pos, len, .. } => {
                    ok = ok && pos < len && (len as usize) <= MAX_ATOMIC_HISTORY;
                    let mut k = 0;
                    while k < MAX_ATOMIC_HISTORY {
                        ok = ok && (values[k] as usize) < MAX_ATOMIC_HISTORY;
                        k += 1;
                    }
                }
                EntryView::Spurious { .. } => {}
            }
        }
        i += 1;
    }
    ok
}

// ---- generators -------------------------------------------------------------------------------

pub(crate) fn any_thread_status() -> Thread {
    let c: u8 = kani::any();
    kani::assume(c <= 5);
    th_from(c)
}

pub(crate) fn any_entry() -> Entry {
    match kani::any::<u8>() {
        0 => Entry::Schedule(Schedule {
            preemptions: kani::any(),
            initial_active: kani::any(),
            threads: [any_thread_status(), any_thread_status(), any_thread_status(), any_thread_status(), any_thread_status()],
            prev: if kani::any() { Some(crate::rt::object::verif_kani::mk_ref(kani::any())) } else { None },
            exploring: kani::any(),
        }),
        1 => Entry::Load(Load { values: kani::any(), pos: kani::any(), len: kani::any(), exploring: kani::any() }),
        _ => Entry::Spurious(Spurious { spur: kani::any(), exploring: kani::any() }),
    }
}

/// Path with exactly `l` symbolic entries, capacity `cap`, everything else symbolic.
pub(crate) fn any_path(l: usize, cap: usize) -> ManuallyDrop<Path> {
    let mut branches: object::Store<Entry> = object::Store::with_capacity(cap);
    let mut i = 0;
    while i < l {
        crate::rt::object::verif_kani::store_entries_mut(&mut branches).push(any_entry());
        i += 1;
    }
    ManuallyDrop::new(Path {
        preemption_bound: kani::any(),
        pos: kani::any(),
        branches,
        exploring: kani::any(),
        skipping: kani::any(),
        exploring_on_start: kani::any(),
    })
}

// ================================================================================================
// C14 / C19.frozen / C13.func: Path::step is exactly the DFS successor
// ================================================================================================

fn step_body(l: usize) {
    let mut p = any_path(l, LMAX);
    let old = path_view(&p);
    kani::assume(wf_path(&old));
    let ret = p.step();
    let new = path_view(&p);
    // k = deepest exploring entry that still has an alternative
    let mut k: Option<usize> = None;
    let mut i = 0;
    while i < l {
        if is_exploring(&old.entries[i]) && has_alternative(&old.entries[i]) {
            k = Some(i);
        }
        i += 1;
    }
    oblige!("C14.step.resets_cursor_and_flags", new.pos == 0 && new.exploring == old.exploring_on_start && !new.skipping
        && new.exploring_on_start == old.exploring_on_start && new.bound == old.bound);
    oblige!("C14.step.false_iff_no_exploring_entry_has_an_alternative", ret == k.is_some());
    if let Some(k) = k {
        oblige!("C14.step.pops_everything_above_the_advanced_entry", new.len == k + 1);
        let mut j = 0;
        while j < l {
            if j < k {
                oblige!("C14.step.prefix_untouched", new.entries[j] == old.entries[j]);
            }
            if j == k {
                oblige!("C14.step.advances_deepest_open_entry_to_its_next_alternative", new.entries[j] == advanced(&old.entries[j]));
            }
            if j > k {
                oblige!("C19.frozen.popped_entries_were_exhausted_or_not_exploring", !is_exploring(&old.entries[j]) || !has_alternative(&old.entries[j]));
            }
            j += 1;
        }
        oblige!("C14.step.preserves_wf_path", wf_path(&new));
    }
    reach!("c14_step");
}

//@ props=C14,C19,C13,C01,C02 tier=quick fns=src/rt/path.rs::Path::step,src/rt/object.rs::Store::truncate,src/rt/object.rs::Ref::downcast bounded=path:depth<=3
#[kani::proof]
#[kani::unwind(8)]
fn c14_path_step() {
    match kani::any::<u8>() {
        0 => step_body(0),
        1 => step_body(1),
        2 => step_body(2),
        _ => step_body(3),
    }
}

//@ props=C14,C19,C13 tier=thorough fns=src/rt/path.rs::Path::step bounded=path:depth=4 timeout=3000
#[kani::proof]
#[kani::unwind(8)]
fn c14_path_step_depth4() {
    step_body(4);
}
