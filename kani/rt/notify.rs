//! C08: contracts for `rt::notify` (child module of `rt::notify`).
use super::*;
use crate::rt::execution::verif_kani::{schedule_calls, schedule_saw};
use crate::rt::object::verif_kani::op_opaque;
use crate::rt::synchronize::verif_kani::{any_sync, hb as sync_hb};
use crate::rt::thread::verif_kani::*;
use crate::rt::vv::verif_kani::{eq as vv_eq, is_join, join_of};
use crate::{oblige, reach};
use std::mem::ManuallyDrop;

const N: usize = 3;

#[derive(Clone, Copy)]
pub(crate) struct NotifyView {
    pub spurious: bool,
    pub did_spur: bool,
    pub seq_cst: bool,
    pub notified: bool,
    pub sync: VersionVec,
}

pub(crate) fn notify_view(s: &State) -> NotifyView {
    NotifyView { spurious: s.spurious, did_spur: s.did_spur, seq_cst: s.seq_cst, notified: s.notified, sync: sync_hb(&s.synchronize) }
}

pub(crate) fn any_notify_state() -> State {
    State { spurious: kani::any(), did_spur: kani::any(), seq_cst: kani::any(), notified: kani::any(), last_access: None, synchronize: any_sync() }
}

/// N threads; notify = object 0, another notify = object 1; pending operations none / on 0 / on 1.
fn notify_exec() -> (ManuallyDrop<crate::rt::Execution>, Notify, Notify) {
    let mut set = any_set(N);
    any_pending_ops(&mut set, |k| match k {
        0 => None,
        1 => Some(op_opaque(0)),
        _ => Some(op_opaque(1)),
    });
    kani::assume(wf_thread_ops(&set));
    let a = active_index(&set).unwrap();
    kani::assume(matches!(thread_at(&set, a).state, crate::rt::thread::State::Runnable { .. }));
    let mut ex = crate::rt::execution::verif_kani::exec_with(ManuallyDrop::into_inner(set), 4);
    let r0 = crate::rt::execution::verif_kani::objects_mut(&mut ex).insert(any_notify_state());
    let r1 = crate::rt::execution::verif_kani::objects_mut(&mut ex).insert(any_notify_state());
    (ex, Notify { state: r0 }, Notify { state: r1 })
}

fn nv(ex: &crate::rt::Execution, n: &Notify) -> NotifyView {
    notify_view(n.state.get(crate::rt::execution::verif_kani::objects(ex)))
}

fn nv_eq(a: &NotifyView, b: &NotifyView) -> bool {
    a.spurious == b.spurious && a.did_spur == b.did_spur && a.seq_cst == b.seq_cst && a.notified == b.notified && vv_eq(&a.sync, &b.sync)
}

/// Finding region F1g: a thread that has announced a `wait` on this notify but is still runnable
/// (the flag was already set when it announced) is handed a park token by a second `notify`.
fn region_runnable_waiter(v: &SetView) -> bool {
    let a = v.active.unwrap();
    let mut r = false;
    let mut i = 0;
    while i < v.len {
        if i != a && v.th[i].op.map(|o| o.0) == Some(0) && matches!(v.th[i].st, StView::Runnable { .. }) {
            r = true;
        }
        i += 1;
    }
    r
}

fn notify_body(inside: bool) {
    let (mut ex, nt, other) = notify_exec();
    let old = set_view(&ex.threads);
    let a = old.active.unwrap();
    let oa = old.th[a];
    let no = nv(&ex, &nt);
    let oo = nv(&ex, &other);
    let _ = (inside, region_runnable_waiter(&old));
    crate::rt::scheduler::verif_kani::with_ctx(&mut ex, || nt.notify(Location::disabled()));
    let new = set_view(&ex.threads);
    let nn = nv(&ex, &nt);
    oblige!("C01.enable.notify_announces_operation_then_schedules_once",
        schedule_calls() == 1 && schedule_saw().unwrap().th[a].op == Some((0, 0)));
    oblige!("C08.notify.sets_flag_and_publishes_exactly_notifiers_view",
        nn.notified && vv_eq(&nn.sync, &join_of(&join_of(&no.sync, &oa.released), &oa.causality))
        && nn.spurious == no.spurious && nn.did_spur == no.did_spur && nn.seq_cst == no.seq_cst);
    oblige!("C08.notify.other_notify_untouched", nv_eq(&oo, &nv(&ex, &other)));
    let mut i = 0;
    while i < N {
        let (o, n) = (old.th[i], new.th[i]);
        if i == a {
            oblige!("C08.notify.notifier_only_gains_pending_operation", n.op == Some((0, 0)) && n.st == o.st
                && vv_eq(&n.causality, &o.causality) && vv_eq(&n.released, &o.released) && vv_eq(&n.dpor_vv, &o.dpor_vv));
        } else if o.op.map(|x| x.0) == Some(0) && o.st == StView::Blocked {
            oblige!("C08.notify.wakes_blocked_waiter_with_notifiers_view",
                n.st == woken(&o) && !n.pending_unpark && is_join(&n.causality, &o.causality, &oa.causality)
                && vv_eq(&n.released, &o.released) && vv_eq(&n.dpor_vv, &o.dpor_vv) && n.op == o.op);
        } else if o.op.map(|x| x.0) == Some(0) {
            // a waiter that is still runnable receives the view but no park token (only unpark creates tokens)
            oblige!("C08.notify.creates_no_park_token", n.st == o.st && n.pending_unpark == o.pending_unpark
                && is_join(&n.causality, &o.causality, &oa.causality));
        } else {
            oblige!("C08.notify.frame_other_threads", th_view_eq(&o, &n));
        }
        i += 1;
    }
    reach!("c08_notify");
}

crate::with_fire_forbidden! {
//@ props=C08,C04,C05 tier=quick timeout=1800 fns=src/rt/notify.rs::Notify::notify,src/rt/thread.rs::Thread::notify_from,src/rt/object.rs::Ref::branch_opaque,src/rt/object.rs::Ref::set_action,src/rt/thread.rs::Set::split_active bounded=threads:N=3 models=Execution::schedule=probe,Scheduler::switch=counting,VersionVec::join=s_vv_models_agree
#[kani::proof]
#[kani::unwind(7)]
#[kani::stub(crate::rt::execution::Execution::schedule, crate::rt::execution::Execution::schedule_probe_model)]
#[kani::stub(crate::rt::scheduler::Scheduler::switch, crate::rt::scheduler::verif_kani::switch_counting_model)]
fn c08_notify() {
    notify_body(false);
}
}

crate::with_fire_forbidden! {
//@ props=C08,C04 tier=quick fns=src/rt/notify.rs::Notify::wait,src/rt/notify.rs::State::might_spur,src/rt/object.rs::Ref::branch_opaque bounded=threads:N=3 models=Execution::schedule=probe,Scheduler::switch=counting,VersionVec::join=s_vv_models_agree
#[kani::proof]
#[kani::unwind(7)]
#[kani::stub(crate::rt::execution::Execution::schedule, crate::rt::execution::Execution::schedule_probe_model)]
#[kani::stub(crate::rt::scheduler::Scheduler::switch, crate::rt::scheduler::verif_kani::switch_counting_model)]
fn c08_notify_wait_with_pending_notification() {
    // flag already set (notification issued before the wait is not lost), no spurious branch taken
    let (mut ex, nt, _other) = notify_exec();
    let old = set_view(&ex.threads);
    let a = old.active.unwrap();
    let oa = old.th[a];
    let no = nv(&ex, &nt);
    kani::assume(no.notified && !(no.spurious && !no.did_spur));
    crate::rt::scheduler::verif_kani::with_ctx(&mut ex, || nt.wait(Location::disabled()));
    let new = set_view(&ex.threads);
    let nn = nv(&ex, &nt);
    let na = new.th[a];
    oblige!("C08.wait.consumes_the_flag", !nn.notified && vv_eq(&nn.sync, &no.sync) && nn.did_spur == no.did_spur);
    oblige!("C08.wait.acquires_exactly_the_notifiers_view", is_join(&na.causality, &oa.causality, &no.sync));
    oblige!("C08.wait.does_not_block_when_already_notified", na.st == oa.st && schedule_calls() == 1
        && matches!(schedule_saw().unwrap().th[a].st, StView::Runnable { .. }));
    let mut i = 0;
    while i < N {
        oblige!("C08.wait.frame_other_threads", i == a || th_view_eq(&old.th[i], &new.th[i]));
        i += 1;
    }
    reach!("c08_notify_wait_notified");
}
}

crate::with_fire_forbidden! {
//@ props=C08,C05 tier=quick fns=src/rt/notify.rs::Notify::wait,src/rt/object.rs::Ref::branch_acquire bounded=threads:N=3 models=Execution::schedule=probe_blocked,Scheduler::switch=cut
#[kani::proof]
#[kani::unwind(7)]
#[kani::stub(crate::rt::execution::Execution::schedule, crate::rt::execution::Execution::schedule_probe_blocked_model)]
#[kani::stub(crate::rt::scheduler::Scheduler::switch, crate::rt::scheduler::verif_kani::switch_cut_model)]
fn c08_notify_wait_blocks_until_notified() {
    // no notification pending, no spurious branch: the caller must yield Blocked on this notify
    let (mut ex, nt, _other) = notify_exec();
    let old = set_view(&ex.threads);
    let a = old.active.unwrap();
    let no = nv(&ex, &nt);
    kani::assume(!no.notified && !(no.spurious && !no.did_spur));
    // obligations at the yield point are checked on the state the schedule probe saw
    crate::rt::scheduler::verif_kani::with_ctx(&mut ex, || {
        nt.wait(Location::disabled());
    });
    // reached only if wait returned without yielding: the probe's snapshot tells why
    let saw = schedule_saw();
    oblige!("C08.wait.never_returns_without_notification", false);
    let _ = (saw, old, a);
}
}

crate::with_fire_forbidden! {
//@ props=C08,C05 tier=quick fns=src/rt/notify.rs::Notify::wait bounded=threads:N=3 models=Execution::schedule=probe_blocked,Scheduler::switch=counting
#[kani::proof]
#[kani::unwind(7)]
#[kani::stub(crate::rt::execution::Execution::schedule, crate::rt::execution::Execution::schedule_probe_blocked_model)]
#[kani::stub(crate::rt::scheduler::Scheduler::switch, crate::rt::scheduler::verif_kani::switch_yield_state_model)]
fn c08_notify_wait_yields_blocked_on_the_notify() {
    let (mut ex, nt, _other) = notify_exec();
    let no = nv(&ex, &nt);
    kani::assume(!no.notified && !(no.spurious && !no.did_spur));
    crate::rt::scheduler::verif_kani::with_ctx(&mut ex, || {
        nt.wait(Location::disabled());
    });
}
}

crate::with_fire_forbidden! {
//@ props=C08 tier=quick fns=src/rt/notify.rs::Notify::wait,src/rt/notify.rs::State::might_spur,src/rt/path.rs::Path::branch_spurious,src/rt/mod.rs::yield_now bounded=threads:N=3 models=Execution::schedule=probe,Scheduler::switch=counting
#[kani::proof]
#[kani::unwind(8)]
#[kani::stub(crate::rt::execution::Execution::schedule, crate::rt::execution::Execution::schedule_probe_model)]
#[kani::stub(crate::rt::scheduler::Scheduler::switch, crate::rt::scheduler::verif_kani::switch_counting_model)]
fn c08_notify_wait_spurious_return_consumes_nothing() {
    // the single modelled spurious return: taken only if `spurious && !did_spur`, it must not consume a
    // pending notification nor acquire anything, and it can happen at most once per Notify
    let (mut ex, nt, _other) = notify_exec();
    // replay a recorded Spurious branch whose choice is "spurious" (second iteration of the branch)
    let path = crate::rt::path::verif_kani::path_with_spurious(true);
    ex.path = ManuallyDrop::into_inner(path);
    let old = set_view(&ex.threads);
    let a = old.active.unwrap();
    let oa = old.th[a];
    let no = nv(&ex, &nt);
    kani::assume(no.spurious && !no.did_spur && oa.yield_count < usize::MAX);
    crate::rt::scheduler::verif_kani::with_ctx(&mut ex, || nt.wait(Location::disabled()));
    let nn = nv(&ex, &nt);
    let na = set_view(&ex.threads).th[a];
    oblige!("C08.wait.spurious_return_marks_did_spur_so_it_happens_once", nn.did_spur && !(nn.spurious && !nn.did_spur));
    oblige!("C08.wait.spurious_return_keeps_pending_notification", nn.notified == no.notified && vv_eq(&nn.sync, &no.sync));
    oblige!("C08.wait.spurious_return_acquires_nothing", vv_eq(&na.causality, &oa.causality));
    oblige!("C08.wait.spurious_return_yields", na.st == StView::Yield && schedule_calls() == 1);
    reach!("c08_notify_wait_spurious");
}
}

pub(crate) fn any_notify_state_no_access() -> State {
    any_notify_state()
}
