//! Re-exports for harnesses outside `rt` (rt::execution / rt::scheduler / ... are private to rt).
pub(crate) use super::execution::verif_kani::{exec_with, exec_with_path};
pub(crate) use super::scheduler::verif_kani::{switch_counting_model, with_ctx, SWITCHES};
pub(crate) use super::thread::verif_kani::{any_set, fixed_random_state, zero_set};
