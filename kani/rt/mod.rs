//! Re-exports for harnesses outside `rt` (rt::execution / rt::scheduler / ... are private to rt).
pub(crate) use super::execution::verif_kani::{exec_with, exec_with_path};
pub(crate) use super::scheduler::verif_kani::{switch_counting_model, with_ctx, SWITCHES};
pub(crate) use super::thread::verif_kani::{any_set, fixed_random_state, zero_set};

// ================================================================================================
// Contracts for the free functions of `rt` (park, yield_now, branch, synchronize)
// ================================================================================================
use super::*;
use crate::rt::execution::verif_kani::{schedule_calls, schedule_saw};
use crate::rt::scheduler::verif_kani::SWITCHES as SW;
use crate::rt::thread::verif_kani::*;
use crate::rt::vv::verif_kani::{eq as vv_eq, is_inc};
use crate::{oblige, reach};
use std::mem::ManuallyDrop;

fn switches() -> u32 {
    unsafe { SW }
}

//@ props=C08,C05 tier=quick fns=src/rt/mod.rs::park bounded=threads:N=3 models=Execution::schedule=probe,Scheduler::switch=counting
#[kani::proof]
#[kani::unwind(7)]
#[kani::stub(std::hash::RandomState::new, crate::rt::thread::verif_kani::fixed_random_state)]
#[kani::stub(crate::rt::execution::Execution::schedule, crate::rt::execution::Execution::schedule_probe_model)]
#[kani::stub(crate::rt::scheduler::Scheduler::switch, crate::rt::scheduler::verif_kani::switch_counting_model)]
fn c08_park() {
    const N: usize = 3;
    let mut set = any_set(N);
    any_pending_ops(&mut set, |k| match k {
        0 => None,
        _ => Some(crate::rt::object::verif_kani::op_opaque(0)),
    });
    let old = set_view(&set);
    let a = old.active.unwrap();
    let oa = old.th[a];
    // the caller is executing: runnable, or still marked Yield after being re-scheduled
    kani::assume(matches!(oa.st, StView::Runnable { .. }) || oa.st == StView::Yield);
    let mut ex = exec_with(ManuallyDrop::into_inner(set), 4);
    with_ctx(&mut ex, || park(Location::disabled()));
    let new = set_view(&ex.threads);
    let na = new.th[a];
    if has_token(&oa) {
        oblige!("C08.park.token_present_returns_immediately_consuming_it",
            !has_token(&na) && (na.st == oa.st || na.st == (StView::Runnable { unparked: false }))
            && schedule_calls() == 0 && switches() == 0 && th_view_eq_except_state(&oa, &na));
    } else {
        oblige!("C08.park.no_token_blocks_with_no_pending_operation", na.st == StView::Blocked && na.op.is_none() && !na.pending_unpark);
        oblige!("C08.park.schedules_exactly_once", schedule_calls() == 1 && switches() <= 1);
        let saw = schedule_saw().unwrap();
        let sa = saw.th[a];
        oblige!("C08.park.is_parked_when_it_yields", sa.st == StView::Blocked && sa.op.is_none());
    }
    let mut i = 0;
    while i < N {
        oblige!("C08.park.frame_other_threads", i == a || th_view_eq(&old.th[i], &new.th[i]));
        i += 1;
    }
    reach!("c08_park");
}

//@ props=C18 tier=quick fns=src/rt/mod.rs::yield_now bounded=threads:N=3 models=Execution::schedule=probe,Scheduler::switch=counting
#[kani::proof]
#[kani::unwind(7)]
#[kani::stub(std::hash::RandomState::new, crate::rt::thread::verif_kani::fixed_random_state)]
#[kani::stub(crate::rt::execution::Execution::schedule, crate::rt::execution::Execution::schedule_probe_model)]
#[kani::stub(crate::rt::scheduler::Scheduler::switch, crate::rt::scheduler::verif_kani::switch_counting_model)]
fn c18_yield_now() {
    const N: usize = 3;
    let mut set = any_set(N);
    any_pending_ops(&mut set, |k| match k {
        0 => None,
        _ => Some(crate::rt::object::verif_kani::op_opaque(0)),
    });
    let old = set_view(&set);
    let a = old.active.unwrap();
    let oa = old.th[a];
    kani::assume(oa.yield_count < usize::MAX);
    let mut ex = exec_with(ManuallyDrop::into_inner(set), 4);
    with_ctx(&mut ex, || yield_now());
    let new = set_view(&ex.threads);
    let na = new.th[a];
    oblige!("C08.token_kept.yield_now", has_token(&na) == has_token(&oa));
    oblige!("C18.yield_now.marks_yield_and_clears_operation", na.st == StView::Yield && na.op.is_none()
        && na.yield_count == oa.yield_count + 1 && na.last_yield == Some(crate::rt::vv::verif_kani::get(&oa.causality, a)));
    oblige!("C18.yield_now.clocks_untouched", vv_eq(&na.causality, &oa.causality) && vv_eq(&na.dpor_vv, &oa.dpor_vv) && vv_eq(&na.released, &oa.released));
    oblige!("C18.yield_now.schedules_exactly_once", schedule_calls() == 1 && switches() <= 1);
    let mut i = 0;
    while i < N {
        oblige!("C18.yield_now.frame_other_threads", i == a || th_view_eq(&old.th[i], &new.th[i]));
        i += 1;
    }
    reach!("c18_yield_now");
}

//@ props=C01,C04 tier=quick fns=src/rt/mod.rs::branch,src/rt/mod.rs::synchronize,src/rt/thread.rs::Set::active_causality_inc bounded=threads:N=3 models=Execution::schedule=probe,Scheduler::switch=counting
#[kani::proof]
#[kani::unwind(7)]
#[kani::stub(std::hash::RandomState::new, crate::rt::thread::verif_kani::fixed_random_state)]
#[kani::stub(crate::rt::execution::Execution::schedule, crate::rt::execution::Execution::schedule_probe_model)]
#[kani::stub(crate::rt::scheduler::Scheduler::switch, crate::rt::scheduler::verif_kani::switch_counting_model)]
fn c01_branch_and_synchronize() {
    const N: usize = 3;
    let set = any_set(N);
    assume_incrementable(&set);
    let old = set_view(&set);
    let a = old.active.unwrap();
    let oa = old.th[a];
    let mut ex = exec_with(ManuallyDrop::into_inner(set), 4);
    if kani::any() {
        let mut ran = 0u32;
        let r = with_ctx(&mut ex, || branch(|_e| { ran += 1; 7u8 }));
        oblige!("C01.branch.runs_closure_once_then_schedules_once", ran == 1 && r == 7 && schedule_calls() == 1 && switches() <= 1);
        let new = set_view(&ex.threads);
        let mut i = 0;
        while i < N {
            oblige!("C01.branch.changes_no_thread_itself", th_view_eq(&old.th[i], &new.th[i]));
            i += 1;
        }
    } else {
        let mut seen = oa.causality;
        let r = with_ctx(&mut ex, || synchronize(|e| { seen = e.threads.active().causality; 9u8 }));
        let new = set_view(&ex.threads);
        let na = new.th[a];
        oblige!("S.synchronize.ticks_own_component_before_the_operation", r == 9 && is_inc(&seen, &oa.causality, a) && vv_eq(&na.causality, &seen));
        oblige!("S.synchronize.never_schedules", schedule_calls() == 0 && switches() == 0);
        let mut i = 0;
        while i < N {
            oblige!("S.synchronize.frame_other_threads", i == a || th_view_eq(&old.th[i], &new.th[i]));
            i += 1;
        }
        oblige!("S.synchronize.only_causality_of_active_changes", th_view_eq_except_causality(&oa, &na));
    }
    reach!("c01_branch_and_synchronize");
}
