//! C07 / C08 / C05: contracts for `rt::mutex` (child module of `rt::mutex`).
use super::*;
use crate::rt::object::verif_kani::{op_opaque, ref_index};
use crate::rt::synchronize::verif_kani::{any_sync, hb as sync_hb};
use crate::rt::thread::verif_kani::*;
use crate::rt::vv::verif_kani::{eq as vv_eq, is_join, join_of};
use crate::{oblige, reach};
use std::mem::ManuallyDrop;

#[derive(Clone, Copy)]
pub(crate) struct MutexView {
    pub owner: Option<usize>,
    pub sync: VersionVec,
    pub seq_cst: bool,
}

pub(crate) fn mutex_view(s: &State) -> MutexView {
    MutexView { owner: s.lock.map(|id| id.as_usize()), sync: sync_hb(&s.synchronize), seq_cst: s.seq_cst }
}

pub(crate) fn mutex_view_eq(a: &MutexView, b: &MutexView) -> bool {
    a.owner == b.owner && vv_eq(&a.sync, &b.sync) && a.seq_cst == b.seq_cst
}

pub(crate) fn any_mutex_state(set: &thread::Set, n: usize) -> State {
    let owner: Option<usize> = if kani::any() {
        let o: usize = kani::any();
        kani::assume(o < n);
        Some(o)
    } else {
        None
    };
    State {
        seq_cst: kani::any(),
        lock: owner.map(|o| id_of(set, o)),
        last_access: None,
        synchronize: any_sync(),
    }
}

/// `n` threads, mutex `m` = object 0, another mutex = object 1; each thread's pending operation is
/// none / on `m` / on the other mutex.
pub(crate) fn mutex_exec(n: usize) -> (ManuallyDrop<crate::rt::Execution>, Mutex, Mutex) {
    let mut set = any_set(n);
    any_pending_ops(&mut set, |k| match k {
        0 => None,
        1 => Some(op_opaque(0)),
        _ => Some(op_opaque(1)),
    });
    kani::assume(wf_thread_ops(&set));
    let s0 = any_mutex_state(&set, n);
    let s1 = any_mutex_state(&set, n);
    let mut ex = crate::rt::execution::verif_kani::exec_with(ManuallyDrop::into_inner(set), 4);
    let r0 = crate::rt::execution::verif_kani::objects_mut(&mut ex).insert(s0);
    let r1 = crate::rt::execution::verif_kani::objects_mut(&mut ex).insert(s1);
    (ex, Mutex { state: r0 }, Mutex { state: r1 })
}

pub(crate) fn view_of(ex: &crate::rt::Execution, m: &Mutex) -> MutexView {
    mutex_view(m.state.get(crate::rt::execution::verif_kani::objects(ex)))
}

/// Finding region F1 (park token lost): some thread other than the active one holds a park token
/// (`Runnable{unparked:true}`) while its pending operation is this mutex.
pub(crate) fn region_token_waiter(v: &SetView, obj: usize) -> bool {
    let a = v.active.unwrap();
    let mut r = false;
    let mut i = 0;
    while i < v.len {
        if i != a && has_token(&v.th[i]) && v.th[i].op.map(|o| o.0) == Some(obj) {
            r = true;
        }
        i += 1;
    }
    r
}

fn post_acquire_body(inside_region: bool) {
    post_acquire_body_n(inside_region, 3)
}

#[allow(non_snake_case)]
fn post_acquire_body_n(inside_region: bool, N: usize) {
    let (mut ex, m, other) = mutex_exec(N);
    let old = set_view(&ex.threads);
    let a = old.active.unwrap();
    let mo = view_of(&ex, &m);
    let oo = view_of(&ex, &other);
    kani::assume(region_token_waiter(&old, 0) == inside_region);
    // entry point: try_acquire_lock = announce the operation (branch_opaque -> schedule) + post_acquire;
    // the blocking acquire_lock runs the same post_acquire after its branch_acquire
    let ret = crate::rt::scheduler::verif_kani::with_ctx(&mut ex, || m.try_acquire_lock(Location::disabled()));
    let new = set_view(&ex.threads);
    let mn = view_of(&ex, &m);
    oblige!("C01.enable.try_lock_announces_operation_then_schedules_once",
        crate::rt::execution::verif_kani::schedule_calls() == 1 && crate::rt::execution::verif_kani::schedule_saw().unwrap().th[a].op == Some((0, 0)));
    oblige!("C07.mutex.post_acquire.succeeds_iff_unlocked", ret == mo.owner.is_none());
    oblige!("C07.mutex.post_acquire.other_mutex_untouched", mutex_view_eq(&oo, &view_of(&ex, &other)));
    oblige!("C07.mutex.post_acquire.set_shape_unchanged", new.len == old.len && new.active == old.active && vv_eq(&new.seq_cst, &old.seq_cst));
    if !ret {
        oblige!("C07.mutex.post_acquire.failure_changes_nothing", mutex_view_eq(&mo, &mn));
        let mut i = 0;
        while i < N {
            let (o, n) = (old.th[i], new.th[i]);
            oblige!("C07.mutex.post_acquire.failure_changes_no_thread", if i == a { n.op == Some((0, 0)) && n.st == o.st && vv_eq(&n.causality, &o.causality) } else { th_view_eq(&o, &n) });
            i += 1;
        }
    } else {
        oblige!("C07.mutex.post_acquire.owner_is_caller", mn.owner == Some(a) && vv_eq(&mn.sync, &mo.sync) && mn.seq_cst == mo.seq_cst);
        let mut i = 0;
        while i < N {
            let (o, n) = (old.th[i], new.th[i]);
            if i == a {
                oblige!("C07.mutex.post_acquire.acquires_exactly_the_release_view",
                    is_join(&n.causality, &o.causality, &mo.sync) && n.st == o.st && n.op == Some((0, 0))
                    && vv_eq(&n.released, &o.released) && vv_eq(&n.dpor_vv, &o.dpor_vv));
            } else if o.op.map(|x| x.0) == Some(0) {
                oblige!("C07.mutex.post_acquire.blocks_other_contenders", n.st == StView::Blocked && th_view_eq_except_state(&o, &n));
                // C08: a stored park token is never dropped by a lock operation
                oblige!("C08.token_kept.mutex_post_acquire", has_token(&n) == has_token(&o));
            } else {
                oblige!("C07.mutex.post_acquire.frame_other_threads", th_view_eq(&o, &n));
            }
            i += 1;
        }
    }
    reach!("c07_mutex_post_acquire");
}

crate::with_fire_forbidden! {
//@ props=C07,C05,C08 tier=quick fns=src/rt/mutex.rs::Mutex::try_acquire_lock,src/rt/mutex.rs::Mutex::post_acquire,src/rt/object.rs::Ref::branch_opaque bounded=threads:N=3 models=VersionVec::join=s_vv_models_agree,Execution::schedule=probe,Scheduler::switch=counting
#[kani::proof]
#[kani::unwind(7)]
#[kani::stub(crate::rt::execution::Execution::schedule, crate::rt::execution::Execution::schedule_probe_model)]
#[kani::stub(crate::rt::scheduler::Scheduler::switch, crate::rt::scheduler::verif_kani::switch_counting_model)]
fn c07_mutex_post_acquire__outside() {
    post_acquire_body(false);
}
}

crate::with_fire_forbidden! {
//@ props=C08 tier=quick fns=src/rt/mutex.rs::Mutex::try_acquire_lock,src/rt/mutex.rs::Mutex::post_acquire bounded=threads:N=3 finding=F1a expect=C08.token_kept.mutex_post_acquire
#[kani::proof]
#[kani::unwind(7)]
#[kani::stub(crate::rt::execution::Execution::schedule, crate::rt::execution::Execution::schedule_probe_model)]
#[kani::stub(crate::rt::scheduler::Scheduler::switch, crate::rt::scheduler::verif_kani::switch_counting_model)]
fn c07_mutex_post_acquire__inside() {
    post_acquire_body(true);
}
}

fn release_lock_body(inside_region: bool) {
    release_lock_body_n(inside_region, 3)
}

#[allow(non_snake_case)]
fn release_lock_body_n(inside_region: bool, N: usize) {
    let (mut ex, m, other) = mutex_exec(N);
    let old = set_view(&ex.threads);
    let a = old.active.unwrap();
    let mo = view_of(&ex, &m);
    let oo = view_of(&ex, &other);
    kani::assume(region_token_waiter(&old, 0) == inside_region);
    crate::rt::scheduler::verif_kani::with_ctx(&mut ex, || m.release_lock());
    let new = set_view(&ex.threads);
    let mn = view_of(&ex, &m);
    let oa = old.th[a];
    oblige!("C07.mutex.release.lock_cleared", mn.owner.is_none() && mn.seq_cst == mo.seq_cst);
    oblige!("C07.mutex.release.publishes_exactly_releasers_view",
        vv_eq(&mn.sync, &join_of(&join_of(&mo.sync, &oa.released), &oa.causality)));
    oblige!("C07.mutex.release.other_mutex_untouched", mutex_view_eq(&oo, &view_of(&ex, &other)));
    oblige!("C07.mutex.release.set_shape_unchanged", new.len == old.len && new.active == old.active && vv_eq(&new.seq_cst, &old.seq_cst));
    let mut i = 0;
    while i < N {
        let (o, n) = (old.th[i], new.th[i]);
        if i != a && o.op.map(|x| x.0) == Some(0) && o.st == StView::Blocked {
            oblige!("C07.mutex.release.wakes_blocked_contenders", n.st == woken(&o) && !n.pending_unpark && th_view_eq_except_state(&o, &n));
        } else if i != a && o.op.map(|x| x.0) == Some(0) && has_token(&o) {
            // C08: a stored park token survives an unlock
            oblige!("C08.token_kept.mutex_release", th_view_eq(&o, &n));
        } else if i != a && o.op.map(|x| x.0) == Some(0) {
            // a contender that was not blocked (lock was free when it announced): still runnable
            oblige!("C07.mutex.release.unblocked_contender_stays_runnable", n.st == o.st && th_view_eq_except_state(&o, &n));
        } else {
            oblige!("C07.mutex.release.frame_other_threads", th_view_eq(&o, &n));
        }
        i += 1;
    }
    reach!("c07_mutex_release");
}

crate::with_fire_forbidden! {
//@ props=C07,C05,C08 tier=quick fns=src/rt/mutex.rs::Mutex::release_lock bounded=threads:N=3 models=VersionVec::join=s_vv_models_agree
#[kani::proof]
#[kani::unwind(7)]
fn c07_mutex_release_lock__outside() {
    release_lock_body(false);
}
}

crate::with_fire_forbidden! {
//@ props=C08 tier=quick fns=src/rt/mutex.rs::Mutex::release_lock bounded=threads:N=3 finding=F1b expect=C08.token_kept.mutex_release
#[kani::proof]
#[kani::unwind(7)]
fn c07_mutex_release_lock__inside() {
    release_lock_body(true);
}
}

crate::with_fire_forbidden! {
//@ props=C07 tier=quick fns=src/rt/mutex.rs::Mutex::new,src/rt/mutex.rs::Mutex::is_locked bounded=threads:N=2
#[kani::proof]
#[kani::unwind(7)]
fn c07_mutex_new_is_locked() {
    let (mut ex, m, _other) = mutex_exec(2);
    let mo = view_of(&ex, &m);
    let l = crate::rt::scheduler::verif_kani::with_ctx(&mut ex, || m.is_locked());
    oblige!("C07.mutex.is_locked.reports_owner_present", l == mo.owner.is_some());
    let sc: bool = kani::any();
    let fresh = crate::rt::scheduler::verif_kani::with_ctx(&mut ex, || Mutex::new(sc));
    let fv = view_of(&ex, &fresh);
    oblige!("C07.mutex.new.unlocked_with_empty_view", fv.owner.is_none() && fv.seq_cst == sc && vv_eq(&fv.sync, &crate::rt::vv::verif_kani::zero_vv()));
    oblige!("C07.mutex.new.fresh_object", ref_index(&fresh.state) == 2);
    reach!("c07_mutex_new");
}
}

// Exclusion + hand-over ordering as a composition over the two transformers (C07):
// release by T1 followed by post_acquire by T2 => owner T2, and T2's view contains T1's view at release.
crate::with_fire_forbidden! {
//@ props=C07,C04 tier=quick fns=src/rt/mutex.rs::Mutex::release_lock,src/rt/mutex.rs::Mutex::post_acquire bounded=threads:N=2
#[kani::proof]
#[kani::unwind(7)]
#[kani::stub(crate::rt::execution::Execution::schedule, crate::rt::execution::Execution::schedule_probe_model)]
#[kani::stub(crate::rt::scheduler::Scheduler::switch, crate::rt::scheduler::verif_kani::switch_counting_model)]
fn c07_mutex_handover_orders_critical_sections() {
    let (mut ex, m, _other) = mutex_exec(2);
    let old = set_view(&ex.threads);
    let t1 = old.active.unwrap();
    let t2 = 1 - t1;
    let c1 = old.th[t1].causality;
    kani::assume(view_of(&ex, &m).owner == Some(t1));
    crate::rt::scheduler::verif_kani::with_ctx(&mut ex, || m.release_lock());
    // context switch to T2 (assumed contract of Scheduler::switch: T2 active)
    set_active_raw(&mut ex.threads, Some(t2));
    let ok = crate::rt::scheduler::verif_kani::with_ctx(&mut ex, || m.try_acquire_lock(Location::disabled()));
    let new = set_view(&ex.threads);
    let n2 = new.th[t2];
    oblige!("C07.mutex.handover.next_acquire_succeeds", ok && view_of(&ex, &m).owner == Some(t2));
    oblige!("C07.mutex.handover.release_happens_before_next_acquire", crate::rt::vv::verif_kani::le(&c1, &n2.causality));
    reach!("c07_mutex_handover");
}
}

/// Insert a mutex locked by `owner` as the next object of `ex` (used by the condvar harness).
pub(crate) fn insert_locked_mutex(ex: &mut crate::rt::Execution, owner: thread::Id) -> Mutex {
    let st = State { seq_cst: kani::any(), lock: Some(owner), last_access: None, synchronize: any_sync() };
    let r = crate::rt::execution::verif_kani::objects_mut(ex).insert(st);
    Mutex { state: r }
}
pub(crate) fn owner_of(ex: &crate::rt::Execution, idx: usize) -> Option<usize> {
    let r: object::Ref<State> = crate::rt::object::verif_kani::mk_ref(idx);
    r.get(crate::rt::execution::verif_kani::objects(ex)).lock.map(|i| i.as_usize())
}

pub(crate) fn unlocked_mutex_state() -> State {
    State { seq_cst: false, lock: None, last_access: None, synchronize: Synchronize::new() }
}

/// Mutex state with a symbolic DPOR last-access record at path position `pid` (or none).
pub(crate) fn mutex_state_with_access(pid: usize) -> State {
    State {
        seq_cst: false,
        lock: None,
        last_access: if kani::any() { Some(crate::rt::access::verif_kani::any_access(pid)) } else { None },
        synchronize: Synchronize::new(),
    }
}
pub(crate) fn last_access_of(ex: &crate::rt::Execution, idx: usize) -> Option<(usize, VersionVec)> {
    let r: object::Ref<State> = crate::rt::object::verif_kani::mk_ref(idx);
    r.get(crate::rt::execution::verif_kani::objects(ex)).last_access.as_ref().map(|a| crate::rt::access::verif_kani::access_parts(a))
}

crate::with_fire_forbidden! {
//@ props=C07,C05 tier=quick fns=src/rt/mutex.rs::Mutex::acquire_lock,src/rt/object.rs::Ref::branch_acquire bounded=threads:N=3 models=Execution::schedule=probe,Scheduler::switch=counting,VersionVec::join=s_vv_models_agree
#[kani::proof]
#[kani::unwind(7)]
#[kani::stub(crate::rt::execution::Execution::schedule, crate::rt::execution::Execution::schedule_probe_model)]
#[kani::stub(crate::rt::scheduler::Scheduler::switch, crate::rt::scheduler::verif_kani::switch_counting_model)]
fn c07_mutex_acquire_lock_when_free() {
    let (mut ex, m, _other) = mutex_exec(3);
    let old = set_view(&ex.threads);
    let a = old.active.unwrap();
    let oa = old.th[a];
    let mo = view_of(&ex, &m);
    kani::assume(mo.owner.is_none() && matches!(oa.st, StView::Runnable { .. }));
    crate::rt::scheduler::verif_kani::with_ctx(&mut ex, || m.acquire_lock(Location::disabled()));
    let na = set_view(&ex.threads).th[a];
    let saw = crate::rt::execution::verif_kani::schedule_saw().unwrap().th[a];
    oblige!("C07.mutex.acquire.free_lock_is_taken_without_blocking", view_of(&ex, &m).owner == Some(a)
        && matches!(saw.st, StView::Runnable { .. }) && saw.op == Some((0, 0)) && crate::rt::execution::verif_kani::schedule_calls() == 1);
    oblige!("C07.mutex.acquire.acquires_exactly_the_release_view", is_join(&na.causality, &oa.causality, &mo.sync));
    reach!("c07_mutex_acquire_free");
}
}

crate::with_fire_forbidden! {
//@ props=C07,C05 tier=quick fns=src/rt/mutex.rs::Mutex::acquire_lock,src/rt/mutex.rs::Mutex::is_locked,src/rt/object.rs::Ref::branch_acquire bounded=threads:N=3 models=Execution::schedule=probe_blocked,Scheduler::switch=yield_state
#[kani::proof]
#[kani::unwind(7)]
#[kani::stub(crate::rt::execution::Execution::schedule, crate::rt::execution::Execution::schedule_probe_blocked_model)]
#[kani::stub(crate::rt::scheduler::Scheduler::switch, crate::rt::scheduler::verif_kani::switch_yield_state_model)]
fn c07_mutex_acquire_lock_blocks_while_held() {
    // a blocking acquire of a held lock yields Blocked on this mutex (obliged in the switch model) and
    // never returns from this phase
    let (mut ex, m, _other) = mutex_exec(3);
    let a = active_index(&ex.threads).unwrap();
    kani::assume(view_of(&ex, &m).owner.is_some());
    kani::assume(matches!(thread_at(&ex.threads, a).state, crate::rt::thread::State::Runnable { .. }));
    crate::rt::scheduler::verif_kani::with_ctx(&mut ex, || m.acquire_lock(Location::disabled()));
    oblige!("C07.mutex.acquire.never_returns_while_lock_is_held", false);
}
}

crate::with_fire_forbidden! {
//@ props=C07,C05,C08 tier=thorough timeout=3000 fns=src/rt/mutex.rs::Mutex::try_acquire_lock,src/rt/mutex.rs::Mutex::post_acquire bounded=threads:N=4 models=VersionVec::join=s_vv_models_agree,Execution::schedule=probe,Scheduler::switch=counting
#[kani::proof]
#[kani::unwind(7)]
#[kani::stub(crate::rt::execution::Execution::schedule, crate::rt::execution::Execution::schedule_probe_model)]
#[kani::stub(crate::rt::scheduler::Scheduler::switch, crate::rt::scheduler::verif_kani::switch_counting_model)]
fn c07_mutex_post_acquire_n4() {
    let inside: bool = kani::any();
    if inside { post_acquire_body_n(true, 4) } else { post_acquire_body_n(false, 4) }
}
}

crate::with_fire_forbidden! {
//@ props=C07,C05,C08 tier=thorough timeout=3000 fns=src/rt/mutex.rs::Mutex::release_lock bounded=threads:N=4 models=VersionVec::join=s_vv_models_agree
#[kani::proof]
#[kani::unwind(7)]
fn c07_mutex_release_lock_n4() {
    let inside: bool = kani::any();
    if inside { release_lock_body_n(true, 4) } else { release_lock_body_n(false, 4) }
}
}

crate::with_fire_forbidden! {
//@ props=C07,C05,C08 tier=thorough timeout=3000 fns=src/rt/mutex.rs::Mutex::try_acquire_lock,src/rt/mutex.rs::Mutex::post_acquire bounded=threads:N=5(=MAX_THREADS) models=VersionVec::join=s_vv_models_agree,Execution::schedule=probe,Scheduler::switch=counting
#[kani::proof]
#[kani::unwind(7)]
#[kani::stub(crate::rt::execution::Execution::schedule, crate::rt::execution::Execution::schedule_probe_model)]
#[kani::stub(crate::rt::scheduler::Scheduler::switch, crate::rt::scheduler::verif_kani::switch_counting_model)]
fn c07_mutex_post_acquire_n5() {
    let inside: bool = kani::any();
    if inside { post_acquire_body_n(true, 5) } else { post_acquire_body_n(false, 5) }
}
}

crate::with_fire_forbidden! {
//@ props=C07,C05,C08 tier=thorough timeout=3000 fns=src/rt/mutex.rs::Mutex::release_lock bounded=threads:N=5(=MAX_THREADS) models=VersionVec::join=s_vv_models_agree
#[kani::proof]
#[kani::unwind(7)]
fn c07_mutex_release_lock_n5() {
    let inside: bool = kani::any();
    if inside { release_lock_body_n(true, 5) } else { release_lock_body_n(false, 5) }
}
}

crate::with_fire_forbidden! {
//@ props=C07,C05,C08 tier=thorough fns=src/rt/mutex.rs::Mutex::try_acquire_lock,src/rt/mutex.rs::Mutex::post_acquire bounded=threads:N=1 models=VersionVec::join=s_vv_models_agree,Execution::schedule=probe,Scheduler::switch=counting
#[kani::proof]
#[kani::unwind(7)]
#[kani::stub(crate::rt::execution::Execution::schedule, crate::rt::execution::Execution::schedule_probe_model)]
#[kani::stub(crate::rt::scheduler::Scheduler::switch, crate::rt::scheduler::verif_kani::switch_counting_model)]
fn c07_mutex_post_acquire_n1() {
    let inside: bool = kani::any();
    if inside { post_acquire_body_n(true, 1) } else { post_acquire_body_n(false, 1) }
}
}

crate::with_fire_forbidden! {
//@ props=C07,C05,C08 tier=thorough fns=src/rt/mutex.rs::Mutex::release_lock bounded=threads:N=1 models=VersionVec::join=s_vv_models_agree
#[kani::proof]
#[kani::unwind(7)]
fn c07_mutex_release_lock_n1() {
    let inside: bool = kani::any();
    if inside { release_lock_body_n(true, 1) } else { release_lock_body_n(false, 1) }
}
}

crate::with_fire_forbidden! {
//@ props=C07,C05,C08 tier=thorough fns=src/rt/mutex.rs::Mutex::try_acquire_lock,src/rt/mutex.rs::Mutex::post_acquire bounded=threads:N=2 models=VersionVec::join=s_vv_models_agree,Execution::schedule=probe,Scheduler::switch=counting
#[kani::proof]
#[kani::unwind(7)]
#[kani::stub(crate::rt::execution::Execution::schedule, crate::rt::execution::Execution::schedule_probe_model)]
#[kani::stub(crate::rt::scheduler::Scheduler::switch, crate::rt::scheduler::verif_kani::switch_counting_model)]
fn c07_mutex_post_acquire_n2() {
    let inside: bool = kani::any();
    if inside { post_acquire_body_n(true, 2) } else { post_acquire_body_n(false, 2) }
}
}

crate::with_fire_forbidden! {
//@ props=C07,C05,C08 tier=thorough fns=src/rt/mutex.rs::Mutex::release_lock bounded=threads:N=2 models=VersionVec::join=s_vv_models_agree
#[kani::proof]
#[kani::unwind(7)]
fn c07_mutex_release_lock_n2() {
    let inside: bool = kani::any();
    if inside { release_lock_body_n(true, 2) } else { release_lock_body_n(false, 2) }
}
}
