//! C09 / C10: contracts for `rt::mpsc` (child module of `rt::mpsc`).
use super::*;
use crate::rt::execution::verif_kani::{schedule_calls, schedule_saw};
use crate::rt::object::verif_kani::mk_op;
use crate::rt::synchronize::verif_kani::{any_sync, hb as sync_hb};
use crate::rt::thread::verif_kani::*;
use crate::rt::vv::verif_kani::{eq as vv_eq, is_join, join_of, zero_vv};
use crate::{oblige, reach};
use std::mem::ManuallyDrop;

const N: usize = 3;
/// Thread count used by the harness bodies (set per harness; 3 unless stated otherwise).
static mut NT: usize = N;
fn nt() -> usize {
    unsafe { NT }
}
/// Bound on the queue length in the harnesses (labelled bounded).
const Q: usize = 2;
const SEND: u8 = 30;
const RECV: u8 = 31;

#[derive(Clone, Copy)]
pub(crate) struct ChanView {
    pub msg_cnt: usize,
    pub qlen: usize,
    pub q: [VersionVec; Q + 1],
    pub sender_sync: VersionVec,
}

pub(crate) fn chan_view(s: &State) -> ChanView {
    let mut q = [zero_vv(); Q + 1];
    let mut i = 0;
    while i < s.receiver_synchronize.len() && i < Q + 1 {
        q[i] = sync_hb(&s.receiver_synchronize[i]);
        i += 1;
    }
    ChanView { msg_cnt: s.msg_cnt, qlen: s.receiver_synchronize.len(), q, sender_sync: sync_hb(&s.sender_synchronize) }
}

fn queue_is_old_plus(cn: &ChanView, co: &ChanView, stamp: &VersionVec) -> bool {
    let mut ok = true;
    let mut i = 0;
    while i < Q + 1 {
        let (a, b) = (cn.q[i], co.q[i]);
        if i < co.qlen {
            ok = ok && vv_eq(&a, &b);
        }
        if i == co.qlen {
            ok = ok && vv_eq(&a, stamp);
        }
        i += 1;
    }
    ok
}

/// `wf_channel`: the counter equals the number of queued synchronisation points.
pub(crate) fn wf_channel(v: &ChanView) -> bool {
    v.msg_cnt == v.qlen
}

/// Channel with a symbolic queue of length 0..=Q satisfying `wf_channel`.
pub(crate) fn any_chan_state() -> State {
    // the queue length is kept path-concrete (VecDeque::push_back's growth path explodes otherwise)
    match kani::any::<u8>() {
        0 => chan_state_with(0),
        1 => chan_state_with(1),
        _ => chan_state_with(2),
    }
}

pub(crate) fn chan_state_with(len: usize) -> State {
    let mut q = VecDeque::with_capacity(Q + 2);
    let mut i = 0;
    while i < len {
        q.push_back(any_sync());
        i += 1;
    }
    State {
        msg_cnt: len,
        last_send_access: None,
        last_recv_access: None,
        sender_synchronize: any_sync(),
        receiver_synchronize: q,
        created: Location::disabled(),
    }
}

fn chan_exec() -> (ManuallyDrop<crate::rt::Execution>, Channel) {
    chan_exec_len(None)
}

/// `qlen = Some(l)`: channel 0 has exactly `l` queued messages (path-concrete queue length).
fn chan_exec_len(qlen: Option<usize>) -> (ManuallyDrop<crate::rt::Execution>, Channel) {
    let mut set = any_set(nt());
    any_pending_ops(&mut set, |k| match k {
        0 => None,
        1 => Some(mk_op(0, Action::MsgSend.into())),
        2 => Some(mk_op(0, Action::MsgRecv.into())),
        _ => Some(mk_op(1, Action::MsgRecv.into())),
    });
    kani::assume(wf_thread_ops(&set));
    let a = active_index(&set).unwrap();
    kani::assume(matches!(thread_at(&set, a).state, crate::rt::thread::State::Runnable { .. }));
    let mut ex = crate::rt::execution::verif_kani::exec_with(ManuallyDrop::into_inner(set), 4);
    let s0 = match qlen { Some(l) => chan_state_with(l), None => any_chan_state() };
    let r0 = crate::rt::execution::verif_kani::objects_mut(&mut ex).insert(s0);
    let _r1 = crate::rt::execution::verif_kani::objects_mut(&mut ex).insert(chan_state_with(0));
    (ex, Channel { state: r0 })
}

fn cv(ex: &crate::rt::Execution, c: &Channel) -> ChanView {
    chan_view(c.state.get(crate::rt::execution::verif_kani::objects(ex)))
}

fn cn_len(ex: &crate::rt::Execution, c: &Channel) -> usize {
    c.state.get(crate::rt::execution::verif_kani::objects(ex)).receiver_synchronize.len()
}

/// View without the queue contents (counts and sender point only).
fn cv_counts(ex: &crate::rt::Execution, c: &Channel) -> ChanView {
    let s = c.state.get(crate::rt::execution::verif_kani::objects(ex));
    ChanView { msg_cnt: s.msg_cnt, qlen: s.receiver_synchronize.len(), q: [zero_vv(); Q + 1], sender_sync: sync_hb(&s.sender_synchronize) }
}

/// Finding region F1h: a receiver that announced `recv` while holding a park token.
fn region_token_receiver(v: &SetView) -> bool {
    let a = v.active.unwrap();
    let mut r = false;
    let mut i = 0;
    while i < v.len {
        if i != a && has_token(&v.th[i]) && v.th[i].op.map(|o| o.0) == Some(0) {
            r = true;
        }
        i += 1;
    }
    r
}

fn send_body(inside: bool, qlen: usize) {
    let (mut ex, ch) = chan_exec_len(Some(qlen));
    let old = set_view(&ex.threads);
    let a = old.active.unwrap();
    let oa = old.th[a];
    let co = cv(&ex, &ch);
    kani::assume(region_token_receiver(&old) == inside);
    crate::rt::scheduler::verif_kani::with_ctx(&mut ex, || ch.send(Location::disabled()));
    let cn = cv_counts(&ex, &ch);
    let new = set_view(&ex.threads);
    let stamp = join_of(&join_of(&co.sender_sync, &oa.released), &oa.causality);
    oblige!("C09.send.branches_as_MsgSend_once", schedule_calls() == 1 && schedule_saw().unwrap().th[a].op == Some((0, SEND)));
    oblige!("C09.send.count_plus_one_and_wf", cn.msg_cnt == co.msg_cnt + 1 && wf_channel(&cn));
    oblige!("C09.send.sender_point_accumulates_exactly_senders_view", vv_eq(&cn.sender_sync, &stamp));
    // LIMIT: the content of the appended point is not read back: any read of the heap-resident VecDeque
    // after the push makes CBMC's array post-processing explode (> 5 min even for a single `back()`).
    // Obliged: the length grows by one and the sender point (the value `send` copies into the queue)
    // is exact; that the copy is what is pushed is visible only syntactically (DESIGN §9).
    oblige!("C09.send.queue_grows_by_one", cn.qlen == co.qlen + 1);
    let mut i = 0;
    while i < nt() {
        let (o, n) = (old.th[i], new.th[i]);
        if i == a {
            oblige!("C09.send.sender_unchanged_but_pending_op", n.op == Some((0, SEND)) && n.st == o.st && vv_eq(&n.causality, &o.causality));
        } else if o.op.map(|x| x.0) == Some(0) && o.st == StView::Blocked && co.msg_cnt == 0 {
            oblige!("C09.send.first_message_wakes_blocked_receivers", n.st == woken(&o) && !n.pending_unpark && th_view_eq_except_state(&o, &n));
        } else if o.op.map(|x| x.0) == Some(0) && has_token(&o) {
            oblige!("C08.token_kept.channel_send", th_view_eq(&o, &n));
        } else if o.op.map(|x| x.0) == Some(0) {
            oblige!("C09.send.other_contenders_keep_state", n.st == o.st && th_view_eq_except_state(&o, &n));
        } else {
            oblige!("C09.send.frame_other_threads", th_view_eq(&o, &n));
        }
        i += 1;
    }
    reach!("c09_send");
}

crate::with_fire_forbidden! {
//@ props=C09,C05,C04,C10 tier=quick fns=src/rt/mpsc.rs::Channel::send,src/rt/object.rs::Ref::branch_action bounded=threads:N=3,queue:len=0 models=Execution::schedule=probe,Scheduler::switch=counting,VersionVec::join=s_vv_models_agree
#[kani::proof]
#[kani::unwind(7)]
#[kani::stub(crate::rt::execution::Execution::schedule, crate::rt::execution::Execution::schedule_probe_model)]
#[kani::stub(crate::rt::scheduler::Scheduler::switch, crate::rt::scheduler::verif_kani::switch_counting_model)]
fn c09_send_q0__outside() {
    send_body(false, 0);
}
}

crate::with_fire_forbidden! {
//@ props=C08 tier=quick fns=src/rt/mpsc.rs::Channel::send,src/rt/object.rs::Ref::branch_action bounded=threads:N=3,queue:len=0 models=Execution::schedule=probe,Scheduler::switch=counting,VersionVec::join=s_vv_models_agree finding=F1h expect=C08.token_kept.channel_send
#[kani::proof]
#[kani::unwind(7)]
#[kani::stub(crate::rt::execution::Execution::schedule, crate::rt::execution::Execution::schedule_probe_model)]
#[kani::stub(crate::rt::scheduler::Scheduler::switch, crate::rt::scheduler::verif_kani::switch_counting_model)]
fn c09_send_q0__inside() {
    send_body(true, 0);
}
}

crate::with_fire_forbidden! {
//@ props=C09,C05,C04,C10 tier=quick fns=src/rt/mpsc.rs::Channel::send,src/rt/object.rs::Ref::branch_action bounded=threads:N=3,queue:len=1 models=Execution::schedule=probe,Scheduler::switch=counting,VersionVec::join=s_vv_models_agree
#[kani::proof]
#[kani::unwind(7)]
#[kani::stub(crate::rt::execution::Execution::schedule, crate::rt::execution::Execution::schedule_probe_model)]
#[kani::stub(crate::rt::scheduler::Scheduler::switch, crate::rt::scheduler::verif_kani::switch_counting_model)]
fn c09_send_q1__outside() {
    send_body(false, 1);
}
}

crate::with_fire_forbidden! {
//@ props=C08 tier=quick fns=src/rt/mpsc.rs::Channel::send,src/rt/object.rs::Ref::branch_action bounded=threads:N=3,queue:len=1 models=Execution::schedule=probe,Scheduler::switch=counting,VersionVec::join=s_vv_models_agree finding=F1h expect=C08.token_kept.channel_send
#[kani::proof]
#[kani::unwind(7)]
#[kani::stub(crate::rt::execution::Execution::schedule, crate::rt::execution::Execution::schedule_probe_model)]
#[kani::stub(crate::rt::scheduler::Scheduler::switch, crate::rt::scheduler::verif_kani::switch_counting_model)]
fn c09_send_q1__inside() {
    send_body(true, 1);
}
}

crate::with_fire_forbidden! {
//@ props=C09,C05,C04,C10 tier=quick fns=src/rt/mpsc.rs::Channel::send,src/rt/object.rs::Ref::branch_action bounded=threads:N=3,queue:len=2 models=Execution::schedule=probe,Scheduler::switch=counting,VersionVec::join=s_vv_models_agree
#[kani::proof]
#[kani::unwind(7)]
#[kani::stub(crate::rt::execution::Execution::schedule, crate::rt::execution::Execution::schedule_probe_model)]
#[kani::stub(crate::rt::scheduler::Scheduler::switch, crate::rt::scheduler::verif_kani::switch_counting_model)]
fn c09_send_q2__outside() {
    send_body(false, 2);
}
}

crate::with_fire_forbidden! {
//@ props=C08 tier=quick fns=src/rt/mpsc.rs::Channel::send,src/rt/object.rs::Ref::branch_action bounded=threads:N=3,queue:len=2 models=Execution::schedule=probe,Scheduler::switch=counting,VersionVec::join=s_vv_models_agree finding=F1h expect=C08.token_kept.channel_send
#[kani::proof]
#[kani::unwind(7)]
#[kani::stub(crate::rt::execution::Execution::schedule, crate::rt::execution::Execution::schedule_probe_model)]
#[kani::stub(crate::rt::scheduler::Scheduler::switch, crate::rt::scheduler::verif_kani::switch_counting_model)]
fn c09_send_q2__inside() {
    send_body(true, 2);
}
}

fn recv_body(inside: bool) {
    recv_body_via(inside, false)
}

/// `via_try == true`: the same obligations for `Channel::try_recv` on a non-empty channel (it must
/// behave exactly like `recv` and report success).
fn recv_body_via(inside: bool, via_try: bool) {
    let (mut ex, ch) = chan_exec();
    let old = set_view(&ex.threads);
    let a = old.active.unwrap();
    let oa = old.th[a];
    let co = cv(&ex, &ch);
    kani::assume(co.msg_cnt >= 1); // non-empty: the blocking phase is c09_recv_blocks_while_empty
    kani::assume(region_token_receiver(&old) == inside);
    if via_try {
        let got = crate::rt::scheduler::verif_kani::with_ctx(&mut ex, || ch.try_recv(Location::disabled()));
        oblige!("C09.try_recv.returns_a_message_exactly_when_one_is_queued", got);
    } else {
        crate::rt::scheduler::verif_kani::with_ctx(&mut ex, || ch.recv(Location::disabled()));
    }
    let cn = cv(&ex, &ch);
    let new = set_view(&ex.threads);
    let na = new.th[a];
    oblige!("C09.recv.branches_as_MsgRecv_without_blocking_when_nonempty", schedule_calls() == 1
        && schedule_saw().unwrap().th[a].op == Some((0, RECV)) && matches!(schedule_saw().unwrap().th[a].st, StView::Runnable { .. }));
    oblige!("C09.recv.count_minus_one_and_wf", cn.msg_cnt == co.msg_cnt - 1 && wf_channel(&cn));
    oblige!("C09.recv.pops_the_front_point_fifo", cn.qlen == co.qlen - 1 && {
        let mut ok = true;
        let mut i = 0;
        while i < Q {
            if i < cn.qlen { ok = ok && vv_eq(&cn.q[i], &co.q[i + 1]); }
            i += 1;
        }
        ok
    });
    oblige!("C09.recv.acquires_exactly_the_view_of_the_message_obtained", is_join(&na.causality, &oa.causality, &co.q[0]));
    oblige!("C09.recv.sender_point_untouched", vv_eq(&cn.sender_sync, &co.sender_sync));
    let mut i = 0;
    while i < nt() {
        let (o, n) = (old.th[i], new.th[i]);
        if i == a {
            oblige!("C09.recv.receiver_only_view_and_op", n.st == o.st && n.op == Some((0, RECV)) && vv_eq(&n.released, &o.released));
        } else if o.op == Some((0, RECV)) && cn.msg_cnt == 0 {
            oblige!("C09.recv.emptying_blocks_other_pending_receivers", n.st == StView::Blocked && th_view_eq_except_state(&o, &n));
            oblige!("C08.token_kept.channel_recv", has_token(&n) == has_token(&o));
        } else {
            oblige!("C09.recv.frame_other_threads", th_view_eq(&o, &n));
        }
        i += 1;
    }
    reach!("c09_recv");
}

crate::with_fire_forbidden! {
//@ props=C09,C05,C04,C10 tier=quick fns=src/rt/mpsc.rs::Channel::recv,src/rt/mpsc.rs::Channel::post_recv,src/rt/mpsc.rs::Channel::is_empty,src/rt/object.rs::Ref::branch_disable bounded=threads:N=3,queue:len<=2 models=Execution::schedule=probe,Scheduler::switch=counting,VersionVec::join=s_vv_models_agree
#[kani::proof]
#[kani::unwind(7)]
#[kani::stub(crate::rt::execution::Execution::schedule, crate::rt::execution::Execution::schedule_probe_model)]
#[kani::stub(crate::rt::scheduler::Scheduler::switch, crate::rt::scheduler::verif_kani::switch_counting_model)]
fn c09_recv__outside() {
    recv_body(false);
}
}

crate::with_fire_forbidden! {
//@ props=C08 tier=quick fns=src/rt/mpsc.rs::Channel::recv bounded=threads:N=3,queue:len<=2 finding=F1i expect=C08.token_kept.channel_recv
#[kani::proof]
#[kani::unwind(7)]
#[kani::stub(crate::rt::execution::Execution::schedule, crate::rt::execution::Execution::schedule_probe_model)]
#[kani::stub(crate::rt::scheduler::Scheduler::switch, crate::rt::scheduler::verif_kani::switch_counting_model)]
fn c09_recv__inside() {
    recv_body(true);
}
}

crate::with_fire_forbidden! {
//@ props=C09,C05 tier=quick fns=src/rt/mpsc.rs::Channel::recv,src/rt/mpsc.rs::Channel::is_empty bounded=threads:N=3 models=Execution::schedule=probe_blocked,Scheduler::switch=yield_state
#[kani::proof]
#[kani::unwind(7)]
#[kani::stub(crate::rt::execution::Execution::schedule, crate::rt::execution::Execution::schedule_probe_blocked_model)]
#[kani::stub(crate::rt::scheduler::Scheduler::switch, crate::rt::scheduler::verif_kani::switch_yield_state_model)]
fn c09_recv_blocks_while_empty() {
    let (mut ex, ch) = chan_exec();
    let co = cv(&ex, &ch);
    kani::assume(co.msg_cnt == 0);
    let e = crate::rt::scheduler::verif_kani::with_ctx(&mut ex, || ch.is_empty());
    oblige!("C09.is_empty.true_iff_no_message_queued", e);
    // the yielding state (Blocked on this channel) is obliged by the switch model; the path ends there
    crate::rt::scheduler::verif_kani::with_ctx(&mut ex, || ch.recv(Location::disabled()));
}
}

crate::with_fire_forbidden! {
//@ props=C09 tier=quick fns=src/rt/mpsc.rs::Channel::is_empty,src/rt/mpsc.rs::Channel::new bounded=threads:N=3,queue:len<=2
#[kani::proof]
#[kani::unwind(7)]
fn c09_is_empty_and_new() {
    let (mut ex, ch) = chan_exec();
    let co = cv(&ex, &ch);
    let e = crate::rt::scheduler::verif_kani::with_ctx(&mut ex, || ch.is_empty());
    oblige!("C09.is_empty.true_iff_no_message_queued", e == (co.msg_cnt == 0));
    let fresh = crate::rt::scheduler::verif_kani::with_ctx(&mut ex, || Channel::new(Location::disabled()));
    let cf = cv(&ex, &fresh);
    oblige!("C09.new.empty_channel", cf.msg_cnt == 0 && cf.qlen == 0 && vv_eq(&cf.sender_sync, &zero_vv()));
    reach!("c09_is_empty_and_new");
}
}

//@ props=C10,C09 tier=quick fns=src/rt/mpsc.rs::State::check_for_leaks expect_panic=Messages_leaked bounded=queue:len<=2
#[kani::proof]
#[kani::unwind(7)]
fn c10_channel_leak_reported() {
    let st = any_chan_state();
    kani::assume(st.msg_cnt != 0);
    st.check_for_leaks(kani::any());
    crate::must_not_reach!("C10.channel.check_for_leaks_returns_despite_queued_messages");
}

//@ props=C10,C09 tier=quick fns=src/rt/mpsc.rs::State::check_for_leaks bounded=queue:len<=2
#[kani::proof]
#[kani::unwind(7)]
fn c10_channel_no_leak_silent() {
    let st = any_chan_state();
    kani::assume(st.msg_cnt == 0);
    st.check_for_leaks(kani::any());
    oblige!("C10.channel.drained_channel_is_not_reported", true);
    std::mem::forget(st);
    reach!("c10_channel_no_leak");
}


crate::with_fire_forbidden! {
//@ props=C09,C05,C04,C01 tier=quick fns=src/rt/mpsc.rs::Channel::try_recv,src/rt/mpsc.rs::Channel::post_recv bounded=threads:N=3,queue:len<=2 models=Execution::schedule=probe,Scheduler::switch=counting,VersionVec::join=s_vv_models_agree
#[kani::proof]
#[kani::unwind(7)]
#[kani::stub(crate::rt::execution::Execution::schedule, crate::rt::execution::Execution::schedule_probe_model)]
#[kani::stub(crate::rt::scheduler::Scheduler::switch, crate::rt::scheduler::verif_kani::switch_counting_model)]
fn c09_try_recv_nonempty_behaves_like_recv() {
    let inside: bool = kani::any();
    if inside { recv_body_via(true, true) } else { recv_body_via(false, true) }
}
}

crate::with_fire_forbidden! {
//@ props=C09,C01 tier=quick fns=src/rt/mpsc.rs::Channel::try_recv bounded=threads:N=3 models=Execution::schedule=probe,Scheduler::switch=counting
#[kani::proof]
#[kani::unwind(7)]
#[kani::stub(crate::rt::execution::Execution::schedule, crate::rt::execution::Execution::schedule_probe_model)]
#[kani::stub(crate::rt::scheduler::Scheduler::switch, crate::rt::scheduler::verif_kani::switch_counting_model)]
fn c09_try_recv_empty_reports_empty_after_a_branch_point() {
    let (mut ex, ch) = chan_exec_len(Some(0));
    let old = set_view(&ex.threads);
    let a = old.active.unwrap();
    let co = cv(&ex, &ch);
    let got = crate::rt::scheduler::verif_kani::with_ctx(&mut ex, || ch.try_recv(Location::disabled()));
    let cn = cv(&ex, &ch);
    let new = set_view(&ex.threads);
    oblige!("C09.try_recv.returns_a_message_exactly_when_one_is_queued", !got);
    // the emptiness test is an operation on the channel that DPOR sees (it races with send)
    oblige!("C01.enable.try_recv_announces_MsgRecv_then_schedules_once", schedule_calls() == 1
        && schedule_saw().unwrap().th[a].op == Some((0, RECV)) && matches!(schedule_saw().unwrap().th[a].st, StView::Runnable { .. }));
    oblige!("C09.try_recv.empty_changes_nothing", cn.msg_cnt == co.msg_cnt && cn.qlen == co.qlen && vv_eq(&cn.sender_sync, &co.sender_sync));
    let mut i = 0;
    while i < nt() {
        let (o, n) = (old.th[i], new.th[i]);
        oblige!("C09.try_recv.empty_blocks_nobody", if i == a { n.st == o.st && vv_eq(&n.causality, &o.causality) } else { th_view_eq(&o, &n) });
        i += 1;
    }
    reach!("c09_try_recv_empty");
}
}

crate::with_fire_forbidden! {
//@ props=C09,C05,C08 tier=thorough timeout=3000 fns=src/rt/mpsc.rs::Channel::send bounded=threads:N=5(=MAX_THREADS),queue:len=0|1 models=Execution::schedule=probe,Scheduler::switch=counting,VersionVec::join=s_vv_models_agree
#[kani::proof]
#[kani::unwind(7)]
#[kani::stub(crate::rt::execution::Execution::schedule, crate::rt::execution::Execution::schedule_probe_model)]
#[kani::stub(crate::rt::scheduler::Scheduler::switch, crate::rt::scheduler::verif_kani::switch_counting_model)]
fn c09_send_n5() {
    unsafe { NT = 5; }
    let inside: bool = kani::any();
    match (kani::any::<bool>(), inside) {
        (false, false) => send_body(false, 0),
        (false, true) => send_body(true, 0),
        (true, false) => send_body(false, 1),
        (true, true) => send_body(true, 1),
    }
}
}

crate::with_fire_forbidden! {
//@ props=C09,C05,C08 tier=thorough timeout=3000 fns=src/rt/mpsc.rs::Channel::recv,src/rt/mpsc.rs::Channel::post_recv bounded=threads:N=5(=MAX_THREADS),queue:len<=2 models=Execution::schedule=probe,Scheduler::switch=counting,VersionVec::join=s_vv_models_agree
#[kani::proof]
#[kani::unwind(7)]
#[kani::stub(crate::rt::execution::Execution::schedule, crate::rt::execution::Execution::schedule_probe_model)]
#[kani::stub(crate::rt::scheduler::Scheduler::switch, crate::rt::scheduler::verif_kani::switch_counting_model)]
fn c09_recv_n5() {
    unsafe { NT = 5; }
    let inside: bool = kani::any();
    if inside { recv_body_via(true, false) } else { recv_body_via(false, false) }
}
}
