//! Generators, views and contracts for `rt::thread` (child module of `rt::thread`).
use super::*;
use crate::rt::vv::verif_kani::{any_vv, any_vv_incrementable, eq as vv_eq, is_inc, is_join, le as vv_le, zero_vv};
use crate::rt::MAX_THREADS;
use crate::{oblige, reach};
use std::mem::ManuallyDrop;

/// Stub for `std::hash::RandomState::new` (reaches getrandom): fixed keys.
pub(crate) fn fixed_random_state() -> std::hash::RandomState {
    unsafe { std::mem::transmute::<(u64, u64), std::hash::RandomState>((0, 0)) }
}

// ---- views ------------------------------------------------------------------------------------

#[derive(Clone, Copy, PartialEq, Eq, Debug)]
pub(crate) enum StView {
    Runnable { unparked: bool },
    Blocked,
    Yield,
    Terminated,
}

pub(crate) fn st_view(s: &State) -> StView {
    match s {
        State::Runnable { unparked } => StView::Runnable { unparked: *unparked },
        State::Blocked(..) => StView::Blocked,
        State::Yield => StView::Yield,
        State::Terminated => StView::Terminated,
    }
}

/// Ghost snapshot of everything a contract may talk about for one thread.
#[derive(Clone, Copy)]
pub(crate) struct ThView {
    pub st: StView,
    pub critical: bool,
    /// `(object index, action code)` of the pending operation (see `object::verif_kani::action_code`).
    pub op: Option<(usize, u8)>,
    pub causality: VersionVec,
    pub released: VersionVec,
    pub dpor_vv: VersionVec,
    pub last_yield: Option<u16>,
    pub yield_count: usize,
}

pub(crate) fn th_view(t: &Thread) -> ThView {
    ThView {
        st: st_view(&t.state),
        critical: t.critical,
        op: t.operation.as_ref().map(|o| crate::rt::object::verif_kani::op_view(o)),
        causality: t.causality,
        released: t.released,
        dpor_vv: t.dpor_vv,
        last_yield: t.last_yield,
        yield_count: t.yield_count,
    }
}

pub(crate) fn th_view_eq(a: &ThView, b: &ThView) -> bool {
    a.st == b.st
        && a.critical == b.critical
        && a.op == b.op
        && vv_eq(&a.causality, &b.causality)
        && vv_eq(&a.released, &b.released)
        && vv_eq(&a.dpor_vv, &b.dpor_vv)
        && a.last_yield == b.last_yield
        && a.yield_count == b.yield_count
}

/// Same as `th_view_eq` but ignoring `causality`.
pub(crate) fn th_view_eq_except_causality(a: &ThView, b: &ThView) -> bool {
    a.st == b.st
        && a.critical == b.critical
        && a.op == b.op
        && vv_eq(&a.released, &b.released)
        && vv_eq(&a.dpor_vv, &b.dpor_vv)
        && a.last_yield == b.last_yield
        && a.yield_count == b.yield_count
}

/// Same as `th_view_eq` but ignoring the scheduling state.
pub(crate) fn th_view_eq_except_state(a: &ThView, b: &ThView) -> bool {
    a.critical == b.critical
        && a.op == b.op
        && vv_eq(&a.causality, &b.causality)
        && vv_eq(&a.released, &b.released)
        && vv_eq(&a.dpor_vv, &b.dpor_vv)
        && a.last_yield == b.last_yield
        && a.yield_count == b.yield_count
}

/// Ghost snapshot of a whole thread set (fixed-size array; entries >= len are copies of entry 0).
#[derive(Clone, Copy)]
pub(crate) struct SetView {
    pub len: usize,
    pub active: Option<usize>,
    pub seq_cst: VersionVec,
    pub th: [ThView; MAX_THREADS],
}

pub(crate) fn set_view(s: &Set) -> SetView {
    let z = th_view(&s.threads[0]);
    let mut th = [z; MAX_THREADS];
    let mut i = 0;
    while i < s.threads.len() && i < MAX_THREADS {
        th[i] = th_view(&s.threads[i]);
        i += 1;
    }
    SetView { len: s.threads.len(), active: s.active, seq_cst: s.seq_cst_causality, th }
}

/// Validity predicate `wf_set`.
pub(crate) fn wf_set(s: &Set) -> bool {
    let n = s.threads.len();
    let mut ok = n >= 1 && n <= MAX_THREADS && n <= s.threads.capacity();
    if let Some(a) = s.active {
        ok = ok && a < n;
    }
    let mut i = 0;
    while i < n {
        ok = ok && s.threads[i].id.id == i && s.threads[i].id.execution_id == s.execution_id;
        i += 1;
    }
    ok
}

pub(crate) fn len(s: &Set) -> usize {
    s.threads.len()
}
pub(crate) fn active_index(s: &Set) -> Option<usize> {
    s.active
}
pub(crate) fn thread_at(s: &Set, i: usize) -> &Thread {
    &s.threads[i]
}
pub(crate) fn thread_at_mut(s: &mut Set, i: usize) -> &mut Thread {
    &mut s.threads[i]
}
pub(crate) fn id_of(s: &Set, i: usize) -> Id {
    Id::new(s.execution_id, i)
}
pub(crate) fn set_active_raw(s: &mut Set, a: Option<usize>) {
    s.active = a;
}
pub(crate) fn set_op(s: &mut Set, i: usize, op: Option<Operation>) {
    s.threads[i].operation = op;
}
pub(crate) fn get_op(s: &Set, i: usize) -> Option<Operation> {
    s.threads[i].operation
}
pub(crate) fn locals_len(s: &Set, i: usize) -> usize {
    s.threads[i].locals.len()
}

// ---- generators -------------------------------------------------------------------------------

pub(crate) fn any_state() -> State {
    let st: u8 = kani::any();
    match st {
        0 => State::Runnable { unparked: false },
        1 => State::Runnable { unparked: true },
        2 => State::Blocked(Location::disabled()),
        3 => State::Yield,
        _ => State::Terminated,
    }
}

pub(crate) fn any_thread(eid: execution::Id, i: usize) -> Thread {
    Thread {
        id: Id::new(eid, i),
        state: any_state(),
        critical: kani::any(),
        operation: None,
        causality: any_vv(),
        released: any_vv(),
        dpor_vv: any_vv(),
        last_yield: kani::any(),
        yield_count: kani::any(),
        locals: HashMap::new(),
        span: tracing::Span::none(),
    }
}

pub(crate) fn fresh_thread(eid: execution::Id, i: usize) -> Thread {
    Thread {
        id: Id::new(eid, i),
        state: State::Runnable { unparked: false },
        critical: false,
        operation: None,
        causality: zero_vv(),
        released: zero_vv(),
        dpor_vv: zero_vv(),
        last_yield: None,
        yield_count: 0,
        locals: HashMap::new(),
        span: tracing::Span::none(),
    }
}

/// A thread set with exactly `n` threads (concrete per harness), everything else symbolic,
/// symbolic active thread `< n`. Pending operations are `None`; harnesses set them.
pub(crate) fn any_set(n: usize) -> ManuallyDrop<Set> {
    let eid = execution::Id::new();
    let mut threads = Vec::with_capacity(MAX_THREADS);
    let mut i = 0;
    while i < n {
        threads.push(any_thread(eid, i));
        i += 1;
    }
    let active: usize = kani::any();
    kani::assume(active < n);
    ManuallyDrop::new(Set {
        execution_id: eid,
        threads,
        active: Some(active),
        seq_cst_causality: any_vv(),
        iteration_span: tracing::Span::none(),
    })
}

/// As `any_set` but with vector capacity `cap` (for `new_thread`'s max check).
pub(crate) fn any_set_cap(n: usize, cap: usize) -> ManuallyDrop<Set> {
    let eid = execution::Id::new();
    let mut threads = Vec::with_capacity(cap);
    let mut i = 0;
    while i < n {
        threads.push(any_thread(eid, i));
        i += 1;
    }
    let active: usize = kani::any();
    kani::assume(active < n);
    ManuallyDrop::new(Set {
        execution_id: eid,
        threads,
        active: Some(active),
        seq_cst_causality: any_vv(),
        iteration_span: tracing::Span::none(),
    })
}

/// The initial one-thread set (what `Set::new` builds), without tracing.
pub(crate) fn zero_set() -> ManuallyDrop<Set> {
    let eid = execution::Id::new();
    let mut threads = Vec::with_capacity(MAX_THREADS);
    threads.push(fresh_thread(eid, 0));
    ManuallyDrop::new(Set {
        execution_id: eid,
        threads,
        active: Some(0),
        seq_cst_causality: zero_vv(),
        iteration_span: tracing::Span::none(),
    })
}

/// All clocks of all threads can be incremented (assumption A6).
pub(crate) fn assume_incrementable(s: &Set) {
    let mut i = 0;
    while i < s.threads.len() {
        let mut k = 0;
        while k < MAX_THREADS {
            kani::assume(crate::rt::vv::verif_kani::get(&s.threads[i].causality, k) < u16::MAX);
            kani::assume(crate::rt::vv::verif_kani::get(&s.threads[i].dpor_vv, k) < u16::MAX);
            k += 1;
        }
        i += 1;
    }
}

/// Thread-clock validity: the release-fence view is a snapshot of an earlier causality of the
/// same thread (`fence_rel` copies it; causality only grows), hence `released <= causality`.
pub(crate) fn wf_thread_clocks(s: &Set) -> bool {
    let mut ok = true;
    let mut i = 0;
    while i < s.threads.len() {
        ok = ok && vv_le(&s.threads[i].released, &s.threads[i].causality);
        i += 1;
    }
    ok
}

/// Scheduling-state validity: a terminated or yielded thread has no pending operation
/// (`thread_done` / `yield_now` clear it), and the active thread is the one executing.
pub(crate) fn wf_thread_ops(s: &Set) -> bool {
    let mut ok = true;
    let mut i = 0;
    while i < s.threads.len() {
        let t = &s.threads[i];
        if matches!(t.state, State::Terminated | State::Yield) {
            ok = ok && t.operation.is_none();
        }
        i += 1;
    }
    ok
}

/// Give every thread a symbolic pending operation: none, or an operation built by `mk(k)` for a
/// symbolic small code `k` (the harness decides which (object, action) pairs the codes stand for).
pub(crate) fn any_pending_ops(s: &mut Set, mk: impl Fn(u8) -> Option<Operation>) {
    let mut i = 0;
    while i < s.threads.len() {
        let k: u8 = kani::any();
        s.threads[i].operation = mk(k);
        i += 1;
    }
}

pub(crate) fn is_parked(v: &ThView) -> bool {
    v.st == StView::Blocked && v.op.is_none()
}
pub(crate) fn has_token(v: &ThView) -> bool {
    v.st == (StView::Runnable { unparked: true })
}
