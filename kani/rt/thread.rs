//! Generators, views and contracts for `rt::thread` (child module of `rt::thread`).
use super::*;
use crate::rt::vv::verif_kani::{any_vv, any_vv_incrementable, eq as vv_eq, is_inc, is_join, le as vv_le, zero_vv};
use crate::rt::MAX_THREADS;
use crate::{oblige, reach};
use std::mem::ManuallyDrop;

/// Stub for `std::hash::RandomState::new` (reaches getrandom): fixed keys.
pub(crate) fn fixed_random_state() -> std::hash::RandomState {
    unsafe { std::mem::transmute::<(u64, u64), std::hash::RandomState>((0, 0)) }
}

// ---- views ------------------------------------------------------------------------------------

#[derive(Clone, Copy, PartialEq, Eq, Debug)]
pub(crate) enum StView {
    Runnable { unparked: bool },
    Blocked,
    Yield,
    Terminated,
}

pub(crate) fn st_view(s: &State) -> StView {
    match s {
        State::Runnable { unparked } => StView::Runnable { unparked: *unparked },
        State::Blocked(..) => StView::Blocked,
        State::Yield => StView::Yield,
        State::Terminated => StView::Terminated,
    }
}

/// Ghost snapshot of everything a contract may talk about for one thread.
#[derive(Clone, Copy)]
pub(crate) struct ThView {
    pub st: StView,
    pub critical: bool,
    /// `(object index, action code)` of the pending operation (see `object::verif_kani::action_code`).
    pub op: Option<(usize, u8)>,
    pub causality: VersionVec,
    pub released: VersionVec,
    pub dpor_vv: VersionVec,
    pub last_yield: Option<u16>,
    pub yield_count: usize,
    /// an unpark that arrived while the thread was blocked on an object or yielded
    pub pending_unpark: bool,
}

pub(crate) fn th_view(t: &Thread) -> ThView {
    ThView {
        st: st_view(&t.state),
        critical: t.critical,
        op: t.operation.as_ref().map(|o| crate::rt::object::verif_kani::op_view(o)),
        causality: t.causality,
        released: t.released,
        dpor_vv: t.dpor_vv,
        last_yield: t.last_yield,
        yield_count: t.yield_count,
        pending_unpark: t.pending_unpark,
    }
}

pub(crate) fn th_view_eq(a: &ThView, b: &ThView) -> bool {
    a.st == b.st
        && a.pending_unpark == b.pending_unpark
        && a.critical == b.critical
        && a.op == b.op
        && vv_eq(&a.causality, &b.causality)
        && vv_eq(&a.released, &b.released)
        && vv_eq(&a.dpor_vv, &b.dpor_vv)
        && a.last_yield == b.last_yield
        && a.yield_count == b.yield_count
}

/// Same as `th_view_eq` but ignoring `causality`.
pub(crate) fn th_view_eq_except_causality(a: &ThView, b: &ThView) -> bool {
    a.st == b.st
        && a.pending_unpark == b.pending_unpark
        && a.critical == b.critical
        && a.op == b.op
        && vv_eq(&a.released, &b.released)
        && vv_eq(&a.dpor_vv, &b.dpor_vv)
        && a.last_yield == b.last_yield
        && a.yield_count == b.yield_count
}

/// Same as `th_view_eq` but ignoring the scheduling state (and where the park token is kept).
pub(crate) fn th_view_eq_except_state(a: &ThView, b: &ThView) -> bool {
    a.critical == b.critical
        && a.op == b.op
        && vv_eq(&a.causality, &b.causality)
        && vv_eq(&a.released, &b.released)
        && vv_eq(&a.dpor_vv, &b.dpor_vv)
        && a.last_yield == b.last_yield
        && a.yield_count == b.yield_count
}

/// Ghost snapshot of a whole thread set (fixed-size array; entries >= len are copies of entry 0).
#[derive(Clone, Copy)]
pub(crate) struct SetView {
    pub len: usize,
    pub active: Option<usize>,
    pub seq_cst: VersionVec,
    pub th: [ThView; MAX_THREADS],
}

pub(crate) fn set_view(s: &Set) -> SetView {
    let z = th_view(&s.threads[0]);
    let mut th = [z; MAX_THREADS];
    let mut i = 0;
    while i < s.threads.len() && i < MAX_THREADS {
        th[i] = th_view(&s.threads[i]);
        i += 1;
    }
    SetView { len: s.threads.len(), active: s.active, seq_cst: s.seq_cst_causality, th }
}

/// Validity predicate `wf_set`.
pub(crate) fn wf_set(s: &Set) -> bool {
    let n = s.threads.len();
    let mut ok = n >= 1 && n <= MAX_THREADS && n <= s.threads.capacity();
    if let Some(a) = s.active {
        ok = ok && a < n;
    }
    let mut i = 0;
    while i < n {
        ok = ok && s.threads[i].id.id == i && s.threads[i].id.execution_id == s.execution_id;
        i += 1;
    }
    ok
}

pub(crate) fn len(s: &Set) -> usize {
    s.threads.len()
}
pub(crate) fn active_index(s: &Set) -> Option<usize> {
    s.active
}
pub(crate) fn thread_at(s: &Set, i: usize) -> &Thread {
    &s.threads[i]
}
pub(crate) fn thread_at_mut(s: &mut Set, i: usize) -> &mut Thread {
    &mut s.threads[i]
}
pub(crate) fn id_of(s: &Set, i: usize) -> Id {
    Id::new(s.execution_id, i)
}
pub(crate) fn set_active_raw(s: &mut Set, a: Option<usize>) {
    s.active = a;
}
pub(crate) fn set_op(s: &mut Set, i: usize, op: Option<Operation>) {
    s.threads[i].operation = op;
}
pub(crate) fn get_op(s: &Set, i: usize) -> Option<Operation> {
    s.threads[i].operation
}
pub(crate) fn locals_len(s: &Set, i: usize) -> usize {
    s.threads[i].locals.len()
}

// ---- generators -------------------------------------------------------------------------------

pub(crate) fn any_state() -> State {
    let st: u8 = kani::any();
    match st {
        0 => State::Runnable { unparked: false },
        1 => State::Runnable { unparked: true },
        2 => State::Blocked(Location::disabled()),
        3 => State::Yield,
        _ => State::Terminated,
    }
}

pub(crate) fn any_thread(eid: execution::Id, i: usize) -> Thread {
    Thread {
        id: Id::new(eid, i),
        state: any_state(),
        critical: kani::any(),
        operation: None,
        causality: any_vv(),
        released: any_vv(),
        dpor_vv: any_vv(),
        last_yield: kani::any(),
        yield_count: kani::any(),
        pending_unpark: kani::any(),
        locals: HashMap::new(),
        span: tracing::Span::none(),
    }
}

pub(crate) fn fresh_thread(eid: execution::Id, i: usize) -> Thread {
    Thread {
        id: Id::new(eid, i),
        state: State::Runnable { unparked: false },
        critical: false,
        operation: None,
        causality: zero_vv(),
        released: zero_vv(),
        dpor_vv: zero_vv(),
        last_yield: None,
        yield_count: 0,
        pending_unpark: false,
        locals: HashMap::new(),
        span: tracing::Span::none(),
    }
}

/// A thread set with exactly `n` threads (concrete per harness), everything else symbolic,
/// symbolic active thread `< n`. Pending operations are `None`; harnesses set them.
pub(crate) fn any_set(n: usize) -> ManuallyDrop<Set> {
    let eid = execution::Id::new();
    let mut threads = Vec::with_capacity(MAX_THREADS);
    let mut i = 0;
    while i < n {
        threads.push(any_thread(eid, i));
        i += 1;
    }
    let active: usize = kani::any();
    kani::assume(active < n);
    ManuallyDrop::new(Set {
        execution_id: eid,
        threads,
        active: Some(active),
        seq_cst_causality: any_vv(),
        iteration_span: tracing::Span::none(),
    })
}

/// As `any_set` but with vector capacity `cap` (for `new_thread`'s max check).
pub(crate) fn any_set_cap(n: usize, cap: usize) -> ManuallyDrop<Set> {
    let eid = execution::Id::new();
    let mut threads = Vec::with_capacity(cap);
    let mut i = 0;
    while i < n {
        threads.push(any_thread(eid, i));
        i += 1;
    }
    let active: usize = kani::any();
    kani::assume(active < n);
    ManuallyDrop::new(Set {
        execution_id: eid,
        threads,
        active: Some(active),
        seq_cst_causality: any_vv(),
        iteration_span: tracing::Span::none(),
    })
}

/// The initial one-thread set (what `Set::new` builds), without tracing.
pub(crate) fn zero_set() -> ManuallyDrop<Set> {
    let eid = execution::Id::new();
    let mut threads = Vec::with_capacity(MAX_THREADS);
    threads.push(fresh_thread(eid, 0));
    ManuallyDrop::new(Set {
        execution_id: eid,
        threads,
        active: Some(0),
        seq_cst_causality: zero_vv(),
        iteration_span: tracing::Span::none(),
    })
}

/// All clocks of all threads can be incremented (assumption A6).
pub(crate) fn assume_incrementable(s: &Set) {
    let mut i = 0;
    while i < s.threads.len() {
        let mut k = 0;
        while k < MAX_THREADS {
            kani::assume(crate::rt::vv::verif_kani::get(&s.threads[i].causality, k) < u16::MAX);
            kani::assume(crate::rt::vv::verif_kani::get(&s.threads[i].dpor_vv, k) < u16::MAX);
            k += 1;
        }
        i += 1;
    }
}

/// Thread-clock validity: the release-fence view is a snapshot of an earlier causality of the
/// same thread (`fence_rel` copies it; causality only grows), hence `released <= causality`.
pub(crate) fn wf_thread_clocks(s: &Set) -> bool {
    let mut ok = true;
    let mut i = 0;
    while i < s.threads.len() {
        ok = ok && vv_le(&s.threads[i].released, &s.threads[i].causality);
        i += 1;
    }
    ok
}

/// Scheduling-state validity: a terminated or yielded thread has no pending operation
/// (`thread_done` / `yield_now` clear it), and the active thread is the one executing.
pub(crate) fn wf_thread_ops(s: &Set) -> bool {
    let mut ok = true;
    let mut i = 0;
    while i < s.threads.len() {
        let t = &s.threads[i];
        if matches!(t.state, State::Terminated | State::Yield) {
            ok = ok && t.operation.is_none();
        }
        // a pending unpark is only kept while the thread cannot consume it: a runnable thread carries
        // its token in `Runnable { unparked }`, a parked thread has none (park consumes it first)
        if matches!(t.state, State::Runnable { .. }) || (matches!(t.state, State::Blocked(..)) && t.operation.is_none()) {
            ok = ok && !t.pending_unpark;
        }
        i += 1;
    }
    ok
}

/// Give every thread a symbolic pending operation: none, or an operation built by `mk(k)` for a
/// symbolic small code `k` (the harness decides which (object, action) pairs the codes stand for).
pub(crate) fn any_pending_ops(s: &mut Set, mk: impl Fn(u8) -> Option<Operation>) {
    let mut i = 0;
    while i < s.threads.len() {
        let k: u8 = kani::any();
        s.threads[i].operation = mk(k);
        i += 1;
    }
}

pub(crate) fn is_parked(v: &ThView) -> bool {
    v.st == StView::Blocked && v.op.is_none()
}
pub(crate) fn has_token(v: &ThView) -> bool {
    v.st == (StView::Runnable { unparked: true }) || v.pending_unpark
}

/// What a blocked / yielded thread looks like once it is made runnable again: its token comes back.
pub(crate) fn woken(v: &ThView) -> StView {
    StView::Runnable { unparked: v.pending_unpark }
}

// ================================================================================================
// C08 / C05 / S.unpark: park token and unpark
// ================================================================================================

/// What `set_unparked` must do according to C08 ("resumes only after the matching unpark",
/// "a notification issued before the wait is not lost").
fn set_unparked_body(region: u8) {
    let eid = execution::Id::new();
    let mut t = any_thread(eid, 1);
    let k: u8 = kani::any();
    t.operation = if k == 0 { None } else { Some(crate::rt::object::verif_kani::op_opaque(0)) };
    let o = th_view(&t);
    kani::assume(!matches!(o.st, StView::Terminated | StView::Yield) || o.op.is_none());
    kani::assume(!(matches!(o.st, StView::Runnable { .. }) || is_parked(&o)) || !o.pending_unpark);
    let blocked_on_object = o.st == StView::Blocked && o.op.is_some();
    let yielded = o.st == StView::Yield;
    match region {
        0 => kani::assume(!blocked_on_object && !yielded),
        1 => kani::assume(blocked_on_object),
        _ => kani::assume(yielded),
    }
    t.set_unparked();
    let n = th_view(&t);
    oblige!("C08.set_unparked.touches_only_the_scheduling_state", th_view_eq_except_state(&o, &n));
    if is_parked(&o) {
        oblige!("C08.set_unparked.wakes_a_parked_thread", n.st == (StView::Runnable { unparked: false }) && !n.pending_unpark);
    } else if matches!(o.st, StView::Runnable { .. }) {
        oblige!("C08.set_unparked.stores_token_for_running_thread", n.st == (StView::Runnable { unparked: true }) && !n.pending_unpark);
    } else if o.st == StView::Terminated {
        oblige!("C08.set_unparked.terminated_stays_terminated", n.st == StView::Terminated);
    } else if blocked_on_object {
        // C05/C08: unparking a thread that is blocked on a lock / join / channel must not wake it ...
        oblige!("C05.unpark_elsewhere.thread_blocked_on_object_is_not_woken", n.st == StView::Blocked);
        // ... and the notification is not lost
        oblige!("C08.token_kept.unpark_of_blocked_thread", has_token(&n));
    } else {
        // yielded thread: stays yielded (de-prioritised), the token must not be lost
        oblige!("C08.token_kept.unpark_of_yielded_thread", n.st == StView::Yield && has_token(&n));
    }
    std::mem::forget(t);
    reach!("c08_set_unparked");
}

//@ props=C08,C05 tier=quick fns=src/rt/thread.rs::Thread::set_unparked,src/rt/thread.rs::Thread::is_parked
#[kani::proof]
#[kani::unwind(7)]
#[kani::stub(std::hash::RandomState::new, fixed_random_state)]
fn c08_set_unparked__outside() {
    set_unparked_body(0);
}

//@ props=C08,C05 tier=quick fns=src/rt/thread.rs::Thread::set_unparked finding=F1c expect=C05.unpark_elsewhere.thread_blocked_on_object_is_not_woken
#[kani::proof]
#[kani::unwind(7)]
#[kani::stub(std::hash::RandomState::new, fixed_random_state)]
fn c08_set_unparked__inside_blocked_on_object() {
    set_unparked_body(1);
}

//@ props=C08 tier=quick fns=src/rt/thread.rs::Thread::set_unparked finding=F1d expect=C08.token_kept.unpark_of_yielded_thread
#[kani::proof]
#[kani::unwind(7)]
#[kani::stub(std::hash::RandomState::new, fixed_random_state)]
fn c08_set_unparked__inside_yielded() {
    set_unparked_body(2);
}

// the token-preserving transitions themselves
//@ props=C08,C05 tier=quick fns=src/rt/thread.rs::Thread::set_runnable,src/rt/thread.rs::Thread::set_blocked,src/rt/thread.rs::Thread::set_yield,src/rt/thread.rs::Thread::has_unpark_token,src/rt/thread.rs::Thread::consume_unpark_token
#[kani::proof]
#[kani::unwind(7)]
#[kani::stub(std::hash::RandomState::new, fixed_random_state)]
fn c08_token_survives_state_transitions() {
    let eid = execution::Id::new();
    let i: usize = kani::any();
    kani::assume(i < MAX_THREADS);
    let mut t = any_thread(eid, i);
    kani::assume(t.yield_count < usize::MAX);
    let o = th_view(&t);
    oblige!("C08.token.has_unpark_token_is_the_view_predicate", t.has_unpark_token() == has_token(&o));
    match kani::any::<u8>() {
        0 => {
            t.set_blocked(Location::disabled());
            let n = th_view(&t);
            oblige!("C08.token_kept.set_blocked", n.st == StView::Blocked && has_token(&n) == has_token(&o));
        }
        1 => {
            t.set_runnable();
            let n = th_view(&t);
            oblige!("C08.token_kept.set_runnable", n.st == (StView::Runnable { unparked: has_token(&o) }) && !n.pending_unpark);
        }
        2 => {
            t.set_yield();
            let n = th_view(&t);
            oblige!("C08.token_kept.set_yield", n.st == StView::Yield && has_token(&n) == has_token(&o));
        }
        _ => {
            t.consume_unpark_token();
            let n = th_view(&t);
            oblige!("C08.token.consume_clears_it_and_nothing_else", !has_token(&n)
                && (n.st == o.st || (matches!(o.st, StView::Runnable { .. }) && n.st == (StView::Runnable { unparked: false }))));
        }
    }
    let n = th_view(&t);
    oblige!("C08.token.transitions_touch_no_clock_or_operation", vv_eq(&n.causality, &o.causality) && vv_eq(&n.released, &o.released) && vv_eq(&n.dpor_vv, &o.dpor_vv) && n.op == o.op);
    std::mem::forget(t);
    reach!("c08_token_transitions");
}

//@ props=C08,C04 tier=quick fns=src/rt/thread.rs::Set::unpark,src/rt/thread.rs::Thread::unpark,src/rt/thread.rs::Set::active2_mut bounded=threads:N=3 models=VersionVec::join=s_vv_models_agree
#[kani::proof]
#[kani::unwind(7)]
#[kani::stub(std::hash::RandomState::new, fixed_random_state)]
#[kani::stub(crate::rt::vv::VersionVec::join, crate::rt::vv::VersionVec::join_model)]
fn c08_set_unpark_transfers_view() {
    const N: usize = 3;
    let mut set = any_set(N);
    let old = set_view(&set);
    let a = old.active.unwrap();
    let target: usize = kani::any();
    kani::assume(target < N);
    // the scheduling-state part is c08_set_unparked's contract; here: the view transfer and the frame
    let id = id_of(&set, target);
    set.unpark(id);
    let new = set_view(&set);
    let oa = old.th[a]; // by value: never `&arr[sym].field` (CBMC 6.11, DESIGN §9)
    let mut i = 0;
    while i < N {
        let (o, n) = (old.th[i], new.th[i]);
        if i == target && i != a {
            oblige!("S.unpark.target_acquires_exactly_unparkers_view",
                is_join(&n.causality, &o.causality, &oa.causality) && vv_eq(&n.released, &o.released) && vv_eq(&n.dpor_vv, &o.dpor_vv) && n.op == o.op);
        } else if i == target {
            oblige!("S.unpark.self_unpark_transfers_nothing", vv_eq(&n.causality, &o.causality) && th_view_eq_except_state(&o, &n));
        } else {
            oblige!("S.unpark.frame_other_threads", th_view_eq(&o, &n));
        }
        i += 1;
    }
    oblige!("S.unpark.set_shape_unchanged", new.len == old.len && new.active == old.active && vv_eq(&new.seq_cst, &old.seq_cst));
    reach!("c08_set_unpark");
}

//@ props=C18 tier=quick fns=src/rt/thread.rs::Thread::set_yield
#[kani::proof]
#[kani::unwind(7)]
#[kani::stub(std::hash::RandomState::new, fixed_random_state)]
fn c18_set_yield() {
    let eid = execution::Id::new();
    let i: usize = kani::any();
    kani::assume(i < MAX_THREADS);
    let mut t = any_thread(eid, i);
    kani::assume(t.yield_count < usize::MAX);
    let o = th_view(&t);
    t.set_yield();
    let n = th_view(&t);
    oblige!("C08.token_kept.set_yield", has_token(&n) == has_token(&o));
    oblige!("C18.set_yield.state_and_counters", n.st == StView::Yield && n.yield_count == o.yield_count + 1
        && n.last_yield == Some(crate::rt::vv::verif_kani::get(&o.causality, i)));
    oblige!("C18.set_yield.clocks_untouched", vv_eq(&n.causality, &o.causality) && vv_eq(&n.released, &o.released) && vv_eq(&n.dpor_vv, &o.dpor_vv) && n.op == o.op);
    std::mem::forget(t);
    reach!("c18_set_yield");
}

//@ props=C19,C04 tier=quick fns=src/rt/thread.rs::Set::new_thread,src/rt/thread.rs::Thread::new,src/rt/thread.rs::Set::max bounded=threads:N=3
#[kani::proof]
#[kani::unwind(7)]
#[kani::stub(std::hash::RandomState::new, fixed_random_state)]
fn c19_set_new_thread() {
    const N: usize = 3;
    let mut set = any_set_cap(N, 4);
    let old = set_view(&set);
    let id = set.new_thread();
    let new = set_view(&set);
    oblige!("S.newthread.id_is_previous_len", id.as_usize() == N && new.len == N + 1 && new.active == old.active);
    let n = new.th[N];
    oblige!("S.newthread.fresh_thread_state", n.st == (StView::Runnable { unparked: false }) && n.op.is_none() && !n.critical
        && vv_eq(&n.causality, &zero_vv()) && vv_eq(&n.released, &zero_vv()) && vv_eq(&n.dpor_vv, &zero_vv())
        && n.last_yield.is_none() && n.yield_count == 0 && locals_len(&set, N) == 0);
    let mut i = 0;
    while i < N {
        oblige!("S.newthread.frame_existing_threads", th_view_eq(&old.th[i], &new.th[i]));
        i += 1;
    }
    oblige!("S.newthread.preserves_wf_set", wf_set(&set));
    reach!("c19_set_new_thread");
}

//@ props=C19 tier=quick fns=src/rt/thread.rs::Set::new_thread bounded=threads:N=3 expect_panic=self.threads.len()_<_self.max()
#[kani::proof]
#[kani::unwind(7)]
#[kani::stub(std::hash::RandomState::new, fixed_random_state)]
fn c19_set_new_thread_at_capacity_panics() {
    // max_threads reached => the documented assertion fires (Kani reports the failed assert as a
    // reachable failure of exactly that check; nothing after it may be reached)
    let mut set = any_set_cap(3, 3);
    kani::assume(set.max() == 3);
    let _ = set.new_thread();
    crate::must_not_reach!("C19.new_thread.returns_despite_max_threads");
}

//@ props=C16 tier=quick fns=src/rt/thread.rs::Set::clear,src/rt/thread.rs::Set::new,src/rt/thread.rs::Thread::new bounded=threads_before_clear:0
#[kani::proof]
#[kani::unwind(7)]
#[kani::stub(std::hash::RandomState::new, fixed_random_state)]
fn c16_set_clear_resets_thread_state() {
    // end-of-iteration thread set.  LIMIT: dropping a `Thread` runs hashbrown's drop glue for its
    // `locals` map, which Kani cannot execute (> 25 min); the harness therefore starts from a set whose
    // thread vector is already empty -- that `Vec::clear` drops every element is std's contract
    // (trusted) -- with arbitrary `active`, SC-fence view and execution id.
    let mut set = empty_set_any_fields();
    let new_id = execution::Id::new();
    set.clear(new_id);
    let v = set_view(&set);
    oblige!("C16.clear.exactly_one_fresh_main_thread", v.len == 1 && v.active == Some(0)
        && v.th[0].st == (StView::Runnable { unparked: false }) && v.th[0].op.is_none() && !v.th[0].critical
        && vv_eq(&v.th[0].causality, &zero_vv()) && vv_eq(&v.th[0].released, &zero_vv()) && vv_eq(&v.th[0].dpor_vv, &zero_vv())
        && v.th[0].last_yield.is_none() && v.th[0].yield_count == 0 && locals_len(&set, 0) == 0);
    oblige!("C16.clear.sc_fence_view_reset", vv_eq(&v.seq_cst, &zero_vv()));
    oblige!("C16.clear.new_execution_id_everywhere", set.execution_id() == new_id && wf_set(&set));
    let fresh = std::mem::ManuallyDrop::new(Set::new(new_id, 4));
    let f = set_view(&fresh);
    oblige!("C16.new.same_initial_state_as_a_fresh_set", f.len == v.len && f.active == v.active && th_view_eq(&f.th[0], &v.th[0]) && vv_eq(&f.seq_cst, &v.seq_cst) && fresh.max() >= 4);
    reach!("c16_set_clear");
}

pub(crate) fn empty_set_any_fields() -> ManuallyDrop<Set> {
    let threads: Vec<Thread> = Vec::with_capacity(MAX_THREADS);
    ManuallyDrop::new(Set {
        execution_id: execution::Id::new(),
        threads,
        active: kani::any(),
        seq_cst_causality: any_vv(),
        iteration_span: tracing::Span::none(),
    })
}

/// Two fresh threads (zero clocks), thread 0 active.
pub(crate) fn zero_set2() -> ManuallyDrop<Set> {
    let eid = execution::Id::new();
    let mut threads = Vec::with_capacity(MAX_THREADS);
    threads.push(fresh_thread(eid, 0));
    threads.push(fresh_thread(eid, 1));
    ManuallyDrop::new(Set { execution_id: eid, threads, active: Some(0), seq_cst_causality: zero_vv(), iteration_span: tracing::Span::none() })
}
