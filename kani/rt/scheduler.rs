//! `with_ctx`: install an `Execution` in the scoped TLS exactly as `Scheduler::tick` does
//! (child module of `rt::scheduler`), so real runtime operations run with their real plumbing.
use super::*;

pub(crate) fn with_ctx<R>(execution: &mut Execution, f: impl FnOnce() -> R) -> R {
    let mut queued_spawn = VecDeque::new();
    let state = RefCell::new(State { execution, queued_spawn: &mut queued_spawn });
    let r = STATE.set(unsafe { transmute_lt(&state) }, f);
    std::mem::forget(queued_spawn);
    r
}

/// Contract model of `Scheduler::switch` for harnesses in which the contract says no switch can
/// happen (one-thread executions, phases that end at the yield point are cut here).
pub(crate) static mut SWITCHES: u32 = 0;
pub(crate) fn switch_counting_model() {
    unsafe {
        SWITCHES += 1;
    }
}
