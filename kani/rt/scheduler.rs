//! `with_ctx`: install an `Execution` in the scoped TLS exactly as `Scheduler::tick` does
//! (child module of `rt::scheduler`), so real runtime operations run with their real plumbing.
use super::*;

pub(crate) fn with_ctx<R>(execution: &mut Execution, f: impl FnOnce() -> R) -> R {
    let mut queued_spawn = VecDeque::new();
    let state = RefCell::new(State { execution, queued_spawn: &mut queued_spawn });
    let r = STATE.set(unsafe { transmute_lt(&state) }, f);
    std::mem::forget(queued_spawn);
    r
}

/// Contract model of `Scheduler::switch` for harnesses in which the contract says no switch can
/// happen (one-thread executions, phases that end at the yield point are cut here).
pub(crate) static mut SWITCHES: u32 = 0;
pub(crate) fn switch_counting_model() {
    unsafe {
        SWITCHES += 1;
    }
}

/// Contract model of `Scheduler::switch` for the phase that ENDS at the yield point: the harness
/// has obliged the yielding state inside the `schedule` probe; the continuation after the switch
/// is verified separately, so this path ends here.
pub(crate) fn switch_cut_model() {
    kani::cover!(true, "yield_point_reached");
    kani::assume(false);
}

/// Contract model of `Scheduler::switch` that obliges the yielding state of a *blocking wait on
/// object 0*: the calling thread must be `Blocked` with its pending operation on object 0 (so that
/// exactly the matching notification can wake it), then ends the path.
pub(crate) fn switch_yield_state_model() {
    Scheduler::with_execution(|e| {
        let a = crate::rt::thread::verif_kani::active_index(&e.threads).unwrap();
        let v = crate::rt::thread::verif_kani::th_view(crate::rt::thread::verif_kani::thread_at(&e.threads, a));
        assert!(v.st == crate::rt::thread::verif_kani::StView::Blocked, "OBL:C08.wait.yields_in_blocked_state");
        assert!(v.op.map(|o| o.0) == Some(0), "OBL:C08.wait.blocked_on_this_object");
    });
    kani::cover!(true, "yield_point_reached");
    kani::assume(false);
}

/// Contract model of `Scheduler::switch` for multi-phase operations: a switch taken while the
/// caller is still runnable is a plain preemption (counted; the no-interference continuation is
/// followed); a switch taken while the caller is `Blocked` is the end of the phase.
pub(crate) fn switch_cut_if_blocked_model() {
    let blocked = Scheduler::with_execution(|e| {
        let a = crate::rt::thread::verif_kani::active_index(&e.threads).unwrap();
        crate::rt::thread::verif_kani::thread_at(&e.threads, a).is_blocked()
    });
    if blocked {
        kani::cover!(true, "yield_point_reached");
        kani::assume(false);
    } else {
        unsafe {
            SWITCHES += 1;
        }
    }
}

/// `Scheduler::switch` model for `Condvar::wait` phase 1: a switch while still runnable is a
/// preemption; the switch taken in the Blocked state is the yield point of `park`, where the
/// contract of `wait` is obliged: caller parked (no pending operation), enqueued (condvar object 0
/// now has 2 waiters), mutex (object 1) released.
pub(crate) fn switch_wait_yield_model() {
    let blocked = Scheduler::with_execution(|e| {
        let a = crate::rt::thread::verif_kani::active_index(&e.threads).unwrap();
        let v = crate::rt::thread::verif_kani::th_view(crate::rt::thread::verif_kani::thread_at(&e.threads, a));
        if v.st == crate::rt::thread::verif_kani::StView::Blocked {
            assert!(v.op.is_none(), "OBL:C08.condvar.wait.yields_parked_not_blocked_on_an_object");
            assert!(crate::rt::mutex::verif_kani::owner_of(e, 1).is_none(), "OBL:C08.condvar.wait.mutex_released_before_parking");
            assert!(crate::rt::condvar::verif_kani::waiters_len(e, 0) == 2, "OBL:C08.condvar.wait.enqueued_before_parking");
            true
        } else {
            false
        }
    });
    if blocked {
        kani::cover!(true, "yield_point_reached");
        kani::assume(false);
    } else {
        unsafe {
            SWITCHES += 1;
        }
    }
}
