//! Contracts / helpers for `rt::access` (child module of `rt::access`).
use super::*;
use crate::{oblige, reach};

pub(crate) fn any_access(path_id: usize) -> Access {
    // A6: clocks stay below u16::MAX
    Access { path_id, dpor_vv: crate::rt::vv::verif_kani::any_vv_incrementable() }
}
pub(crate) fn access_parts(a: &Access) -> (usize, VersionVec) {
    (a.path_id, a.dpor_vv)
}

//@ props=C01 tier=quick fns=src/rt/access.rs::Access::new,src/rt/access.rs::Access::set,src/rt/access.rs::Access::set_or_create,src/rt/access.rs::Access::happens_before
#[kani::proof]
#[kani::unwind(7)]
fn s_access() {
    let v = crate::rt::vv::verif_kani::any_vv();
    let p: usize = kani::any();
    let mut slot: Option<Access> = if kani::any() { Some(any_access(kani::any())) } else { None };
    Access::set_or_create(&mut slot, p, &v);
    let a = slot.unwrap();
    oblige!("S.access.records_position_and_clock", a.path_id() == p && crate::rt::vv::verif_kani::eq(a.version(), &v));
    let w = crate::rt::vv::verif_kani::any_vv();
    oblige!("S.access.happens_before_iff_clock_le", a.happens_before(&w) == crate::rt::vv::verif_kani::le(&v, &w));
    reach!("s_access");
}
