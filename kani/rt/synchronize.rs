//! Contracts for `rt::synchronize::Synchronize` (layer S: ordering-dependent view transfer).
//! Postconditions are *equalities* on the whole view: "nothing more" (C02) and "nothing less" (C03).
use super::*;
use crate::rt::thread::verif_kani::*;
use crate::rt::vv::verif_kani::{any_vv, eq as vv_eq, is_join, join_of, zero_vv};
use crate::{oblige, reach};

pub(crate) fn any_sync() -> Synchronize {
    Synchronize { happens_before: any_vv() }
}
pub(crate) fn sync_with(hb: VersionVec) -> Synchronize {
    Synchronize { happens_before: hb }
}
pub(crate) fn hb(s: &Synchronize) -> VersionVec {
    s.happens_before
}

pub(crate) fn any_order() -> Ordering {
    match kani::any::<u8>() {
        0 => Relaxed,
        1 => Acquire,
        2 => Release,
        3 => AcqRel,
        _ => SeqCst,
    }
}

pub(crate) fn acquires(o: Ordering) -> bool {
    matches!(o, Acquire | AcqRel | SeqCst)
}
pub(crate) fn releases(o: Ordering) -> bool {
    matches!(o, Release | AcqRel | SeqCst)
}

/// Contract of `sync_load`, as a predicate over (old set view, old hb) -> (new set view, new hb).
pub(crate) fn post_sync_load(old: &SetView, old_hb: &VersionVec, new: &SetView, new_hb: &VersionVec, o: Ordering) -> bool {
    let a = old.active.unwrap();
    let mut ok = vv_eq(old_hb, new_hb) && new.len == old.len && new.active == old.active && vv_eq(&new.seq_cst, &old.seq_cst);
    let mut i = 0;
    while i < old.len {
        if i == a && acquires(o) {
            ok = ok
                && th_view_eq_except_causality(&old.th[i], &new.th[i])
                && is_join(&new.th[i].causality, &old.th[i].causality, old_hb);
        } else {
            ok = ok && th_view_eq(&old.th[i], &new.th[i]);
        }
        i += 1;
    }
    ok
}

/// Contract of `sync_store`.
pub(crate) fn post_sync_store(old: &SetView, old_hb: &VersionVec, new: &SetView, new_hb: &VersionVec, o: Ordering) -> bool {
    let a = old.active.unwrap();
    let oa = old.th[a];
    let mut want = join_of(old_hb, &oa.released);
    if releases(o) {
        want = join_of(&want, &oa.causality);
    }
    let mut ok = vv_eq(new_hb, &want) && new.len == old.len && new.active == old.active && vv_eq(&new.seq_cst, &old.seq_cst);
    let mut i = 0;
    while i < old.len {
        ok = ok && th_view_eq(&old.th[i], &new.th[i]);
        i += 1;
    }
    ok
}

macro_rules! sync_harnesses {
    ($load:ident, $store:ident, $n:expr) => {
        #[kani::proof]
        #[kani::unwind(7)]
        #[kani::stub(std::hash::RandomState::new, crate::rt::thread::verif_kani::fixed_random_state)]
        fn $load() {
            let mut set = any_set($n);
            let mut s = any_sync();
            let o = any_order();
            let old = set_view(&set);
            let old_hb = hb(&s);
            s.sync_load(&mut set, o);
            let new = set_view(&set);
            let a = old.active.unwrap();
            // NB: copy the element out by value (CBMC 6.11 mis-resolves `&arr[sym].field`, see DESIGN §9)
            let (oa, na) = (old.th[a], new.th[a]);
            oblige!("S.sync.load.relaxed_release_transfer_nothing",
                acquires(o) || vv_eq(&na.causality, &oa.causality));
            oblige!("S.sync.load.acquire_is_exact_join",
                !acquires(o) || is_join(&na.causality, &oa.causality, &old_hb));
            oblige!("S.sync.load.whole_view_and_frame", post_sync_load(&old, &old_hb, &new, &hb(&s), o));
            oblige!("S.sync.load.preserves_wf_set", wf_set(&set));
            reach!("s_sync_load");
        }

        #[kani::proof]
        #[kani::unwind(7)]
        #[kani::stub(std::hash::RandomState::new, crate::rt::thread::verif_kani::fixed_random_state)]
        fn $store() {
            let mut set = any_set($n);
            let mut s = any_sync();
            let o = any_order();
            let old = set_view(&set);
            let old_hb = hb(&s);
            s.sync_store(&mut set, o);
            let new = set_view(&set);
            let a = old.active.unwrap();
            let oa = old.th[a];
            let with_released = join_of(&old_hb, &oa.released);
            oblige!("S.sync.store.relaxed_acquire_publish_only_release_fence_view",
                releases(o) || vv_eq(&hb(&s), &with_released));
            oblige!("S.sync.store.release_publishes_exactly_causality",
                !releases(o) || is_join(&hb(&s), &with_released, &oa.causality));
            oblige!("S.sync.store.whole_view_and_frame", post_sync_store(&old, &old_hb, &new, &hb(&s), o));
            reach!("s_sync_store");
        }
    };
}

//@ name=s_sync_load_n1 props=C02,C03,C04,C07,C08,C09,C11 tier=quick fns=src/rt/synchronize.rs::Synchronize::sync_load,src/rt/synchronize.rs::Synchronize::sync_acq
//@ name=s_sync_store_n1 props=C02,C03,C04,C07,C08,C09,C11 tier=quick fns=src/rt/synchronize.rs::Synchronize::sync_store,src/rt/synchronize.rs::Synchronize::sync_rel
sync_harnesses!(s_sync_load_n1, s_sync_store_n1, 1);
//@ name=s_sync_load_n3 props=C02,C03,C04,C07,C08,C09,C11 tier=quick fns=src/rt/synchronize.rs::Synchronize::sync_load,src/rt/synchronize.rs::Synchronize::sync_acq
//@ name=s_sync_store_n3 props=C02,C03,C04,C07,C08,C09,C11 tier=quick fns=src/rt/synchronize.rs::Synchronize::sync_store,src/rt/synchronize.rs::Synchronize::sync_rel
sync_harnesses!(s_sync_load_n3, s_sync_store_n3, 3);

//@ props=C03,C12 tier=quick fns=src/rt/synchronize.rs::Synchronize::new
#[kani::proof]
#[kani::unwind(7)]
fn s_sync_new() {
    let s = Synchronize::new();
    oblige!("S.sync.new.zero", vv_eq(&hb(&s), &zero_vv()));
    reach!("s_sync_new");
}

