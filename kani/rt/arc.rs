//! C11 / C10: contracts for `rt::arc` (child module of `rt::arc`).
use super::*;
use crate::rt::execution::verif_kani::{schedule_calls, schedule_saw};
use crate::rt::synchronize::verif_kani::{any_sync, hb as sync_hb};
use crate::rt::thread::verif_kani::*;
use crate::rt::vv::verif_kani::{eq as vv_eq, is_join, join_of, le as vv_le, zero_vv};
use crate::{oblige, reach};
use std::mem::ManuallyDrop;

const N: usize = 2;

pub(crate) fn any_arc_state() -> State {
    State {
        ref_cnt: kani::any(),
        allocated: Location::disabled(),
        synchronize: any_sync(),
        last_ref_inc: None,
        last_ref_dec: None,
        last_ref_inspect: None,
        last_ref_modification: None,
    }
}

fn arc_exec() -> (ManuallyDrop<crate::rt::Execution>, Arc) {
    let set = any_set(N);
    let a = active_index(&set).unwrap();
    kani::assume(matches!(thread_at(&set, a).state, crate::rt::thread::State::Runnable { .. }));
    let mut ex = crate::rt::execution::verif_kani::exec_with(ManuallyDrop::into_inner(set), 4);
    let r0 = crate::rt::execution::verif_kani::objects_mut(&mut ex).insert(any_arc_state());
    (ex, Arc { state: r0 })
}

fn av(ex: &crate::rt::Execution, a: &Arc) -> (usize, VersionVec) {
    let s = a.state.get(crate::rt::execution::verif_kani::objects(ex));
    (s.ref_cnt, sync_hb(&s.synchronize))
}

fn frame_others(old: &SetView, new: &SetView, a: usize) -> bool {
    let mut ok = new.len == old.len && new.active == old.active;
    let mut i = 0;
    while i < N {
        ok = ok && (i == a || th_view_eq(&old.th[i], &new.th[i]));
        i += 1;
    }
    ok
}

crate::with_fire_forbidden! {
//@ props=C11,C10 tier=quick fns=src/rt/arc.rs::Arc::new,src/rt/arc.rs::Arc::ref_inc,src/rt/arc.rs::Arc::branch bounded=threads:N=2 models=Execution::schedule=probe,Scheduler::switch=counting
#[kani::proof]
#[kani::unwind(7)]
#[kani::stub(crate::rt::execution::Execution::schedule, crate::rt::execution::Execution::schedule_probe_model)]
#[kani::stub(crate::rt::scheduler::Scheduler::switch, crate::rt::scheduler::verif_kani::switch_counting_model)]
fn c11_arc_new_and_ref_inc() {
    let (mut ex, arc) = arc_exec();
    let old = set_view(&ex.threads);
    let a = old.active.unwrap();
    let (cnt, sync) = av(&ex, &arc);
    kani::assume(cnt < usize::MAX);
    crate::rt::scheduler::verif_kani::with_ctx(&mut ex, || arc.ref_inc(Location::disabled()));
    let (cnt2, sync2) = av(&ex, &arc);
    let new = set_view(&ex.threads);
    let (oa, na) = (old.th[a], new.th[a]);
    oblige!("C11.ref_inc.count_plus_one_no_view_transfer", cnt2 == cnt + 1 && vv_eq(&sync, &sync2) && vv_eq(&na.causality, &oa.causality));
    oblige!("C11.ref_inc.branches_as_RefInc_once", schedule_calls() == 1 && schedule_saw().unwrap().th[a].op == Some((0, 20)));
    oblige!("C11.ref_inc.frame", frame_others(&old, &new, a));
    let fresh = crate::rt::scheduler::verif_kani::with_ctx(&mut ex, || Arc::new(Location::disabled()));
    let (c0, s0) = av(&ex, &fresh);
    oblige!("C11.new.count_is_one_empty_view", c0 == 1 && vv_eq(&s0, &zero_vv()));
    reach!("c11_arc_ref_inc");
}
}

crate::with_fire_forbidden! {
//@ props=C11,C10 tier=quick fns=src/rt/arc.rs::Arc::ref_dec bounded=threads:N=2 models=Execution::schedule=probe,Scheduler::switch=counting,VersionVec::join=s_vv_models_agree
#[kani::proof]
#[kani::unwind(7)]
#[kani::stub(crate::rt::execution::Execution::schedule, crate::rt::execution::Execution::schedule_probe_model)]
#[kani::stub(crate::rt::scheduler::Scheduler::switch, crate::rt::scheduler::verif_kani::switch_counting_model)]
fn c11_arc_ref_dec() {
    let (mut ex, arc) = arc_exec();
    let old = set_view(&ex.threads);
    let a = old.active.unwrap();
    let (cnt, sync) = av(&ex, &arc);
    kani::assume(cnt >= 1);
    let last = crate::rt::scheduler::verif_kani::with_ctx(&mut ex, || arc.ref_dec(Location::disabled()));
    let (cnt2, sync2) = av(&ex, &arc);
    let new = set_view(&ex.threads);
    let (oa, na) = (old.th[a], new.th[a]);
    let published = join_of(&join_of(&sync, &oa.released), &oa.causality);
    oblige!("C11.ref_dec.count_minus_one", cnt2 == cnt - 1);
    oblige!("C11.ref_dec.returns_true_iff_count_reached_zero", last == (cnt2 == 0));
    oblige!("C11.ref_dec.every_decrement_releases_droppers_view", vv_eq(&sync2, &published));
    if last {
        oblige!("C11.ref_dec.last_decrement_acquires_all_earlier_drops", is_join(&na.causality, &oa.causality, &published));
    } else {
        oblige!("C11.ref_dec.non_last_decrement_acquires_nothing", vv_eq(&na.causality, &oa.causality));
    }
    oblige!("C11.ref_dec.branches_as_RefDec_once", schedule_calls() == 1 && schedule_saw().unwrap().th[a].op == Some((0, 21)));
    oblige!("C11.ref_dec.frame", frame_others(&old, &new, a));
    reach!("c11_arc_ref_dec");
}
}

crate::with_fire_forbidden! {
//@ props=C11 tier=quick fns=src/rt/arc.rs::Arc::get_mut,src/rt/arc.rs::Arc::strong_count bounded=threads:N=2 models=Execution::schedule=probe,Scheduler::switch=counting,VersionVec::join=s_vv_models_agree
#[kani::proof]
#[kani::unwind(7)]
#[kani::stub(crate::rt::execution::Execution::schedule, crate::rt::execution::Execution::schedule_probe_model)]
#[kani::stub(crate::rt::scheduler::Scheduler::switch, crate::rt::scheduler::verif_kani::switch_counting_model)]
fn c11_arc_inspect() {
    let (mut ex, arc) = arc_exec();
    let old = set_view(&ex.threads);
    let a = old.active.unwrap();
    let (cnt, sync) = av(&ex, &arc);
    kani::assume(cnt >= 1);
    let oa = old.th[a];
    if kani::any() {
        let only = crate::rt::scheduler::verif_kani::with_ctx(&mut ex, || arc.get_mut(Location::disabled()));
        oblige!("C11.get_mut.true_iff_unique", only == (cnt == 1));
        oblige!("C11.get_mut.branches_as_RefDec", schedule_saw().unwrap().th[a].op == Some((0, 21)));
    } else {
        let c = crate::rt::scheduler::verif_kani::with_ctx(&mut ex, || arc.strong_count());
        oblige!("C11.strong_count.returns_count", c == cnt);
        oblige!("C11.strong_count.branches_as_Inspect", schedule_saw().unwrap().th[a].op == Some((0, 22)));
    }
    let (cnt2, sync2) = av(&ex, &arc);
    let new = set_view(&ex.threads);
    let na = new.th[a];
    oblige!("C11.inspect.count_and_sync_point_unchanged", cnt2 == cnt && vv_eq(&sync, &sync2));
    oblige!("C11.inspect.acquires_exactly_the_dropped_views", is_join(&na.causality, &oa.causality, &sync));
    oblige!("C11.inspect.frame", frame_others(&old, &new, a) && schedule_calls() == 1);
    reach!("c11_arc_inspect");
}
}

//@ props=C10,C11 tier=quick fns=src/rt/arc.rs::State::check_for_leaks expect_panic=Arc_leaked
#[kani::proof]
#[kani::unwind(7)]
fn c10_arc_leak_reported() {
    let st = any_arc_state();
    kani::assume(st.ref_cnt != 0);
    st.check_for_leaks(kani::any());
    crate::must_not_reach!("C10.arc.check_for_leaks_returns_despite_live_count");
}

//@ props=C10,C11 tier=quick fns=src/rt/arc.rs::State::check_for_leaks
#[kani::proof]
#[kani::unwind(7)]
fn c10_arc_no_leak_silent() {
    let mut st = any_arc_state();
    st.ref_cnt = 0;
    st.check_for_leaks(kani::any());
    oblige!("C10.arc.released_arc_is_not_reported", true);
    reach!("c10_arc_no_leak");
}

// dependence classes (C01.dep.arc / C11): which earlier access a pending action is compared with
//@ props=C11,C01 tier=quick fns=src/rt/arc.rs::State::last_dependent_access,src/rt/arc.rs::State::set_last_access,src/rt/access.rs::Access::set_or_create
#[kani::proof]
#[kani::unwind(7)]
fn c11_arc_dependence_classes() {
    let mut st = any_arc_state();
    let v1 = crate::rt::vv::verif_kani::any_vv();
    let p1: usize = kani::any();
    let act = match kani::any::<u8>() { 0 => Action::RefInc, 1 => Action::RefDec, _ => Action::Inspect };
    st.set_last_access(act, p1, &v1);
    let hit = |s: &State, q: Action| s.last_dependent_access(q).map(|a| a.path_id() == p1 && vv_eq(a.version(), &v1)).unwrap_or(false);
    // an inspection depends on the last modification of the count (inc or dec)
    oblige!("C11.dep.inspect_sees_last_modification", act == Action::Inspect || hit(&st, Action::Inspect));
    // a decrement / get_mut depends on earlier decrements
    oblige!("C11.dep.dec_sees_last_dec", act != Action::RefDec || hit(&st, Action::RefDec));
    // ... and on earlier inspections of the count (strong_count observes the decrement)
    oblige!("C11.dep.dec_sees_last_inspect", act != Action::Inspect || hit(&st, Action::RefDec));
    // an increment depends on earlier inspections
    oblige!("C11.dep.inc_sees_last_inspect", act != Action::Inspect || hit(&st, Action::RefInc));
    reach!("c11_arc_dependence_classes");
}

pub(crate) fn count(s: &State) -> usize {
    s.ref_cnt
}

// ================================================================================================
// C01.dep.arc: the pairs of actions the Arc summaries treat as INDEPENDENT really commute
// (same final count, same synchronisation point, same return values, same thread views in both orders).
// Independent per `last_dependent_access`: RefInc||RefInc, RefInc||RefDec, Inspect||Inspect.
// ================================================================================================

/// Two executions built from the SAME symbolic seed: 2 threads, one Arc.
fn twin_exec(cnt: usize, sync: VersionVec, c0: VersionVec, c1: VersionVec, r0: VersionVec, r1: VersionVec) -> (ManuallyDrop<crate::rt::Execution>, Arc) {
    let mut set = zero_set2();
    {
        let t0 = thread_at_mut(&mut set, 0);
        t0.causality = c0;
        t0.released = r0;
    }
    {
        let t1 = thread_at_mut(&mut set, 1);
        t1.causality = c1;
        t1.released = r1;
    }
    let mut ex = crate::rt::execution::verif_kani::exec_with(ManuallyDrop::into_inner(set), 4);
    let st = State {
        ref_cnt: cnt,
        allocated: Location::disabled(),
        synchronize: crate::rt::synchronize::verif_kani::sync_with(sync),
        last_ref_inc: None,
        last_ref_dec: None,
        last_ref_inspect: None,
        last_ref_modification: None,
    };
    let r = crate::rt::execution::verif_kani::objects_mut(&mut ex).insert(st);
    (ex, Arc { state: r })
}

/// Run action `k` (0 = ref_inc, 1 = ref_dec, 2 = strong_count) as thread `t`; returns the observable result.
fn act_as(ex: &mut crate::rt::Execution, arc: &Arc, t: usize, k: u8) -> usize {
    set_active_raw(&mut ex.threads, Some(t));
    crate::rt::scheduler::verif_kani::with_ctx(ex, || match k {
        0 => {
            arc.ref_inc(Location::disabled());
            0
        }
        1 => arc.ref_dec(Location::disabled()) as usize,
        _ => arc.strong_count(),
    })
}

crate::with_fire_forbidden! {
//@ props=C01,C11 tier=quick fns=src/rt/arc.rs::Arc::ref_inc,src/rt/arc.rs::Arc::ref_dec,src/rt/arc.rs::Arc::strong_count,src/rt/arc.rs::State::last_dependent_access bounded=threads:N=2 models=Execution::schedule=probe,Scheduler::switch=counting,VersionVec::join=s_vv_models_agree
#[kani::proof]
#[kani::unwind(7)]
#[kani::stub(crate::rt::execution::Execution::schedule, crate::rt::execution::Execution::schedule_probe_model)]
#[kani::stub(crate::rt::scheduler::Scheduler::switch, crate::rt::scheduler::verif_kani::switch_counting_model)]
fn c01_arc_independent_actions_commute() {
    let cnt: usize = kani::any();
    // each acting thread holds a handle of its own
    kani::assume(cnt >= 2 && cnt < usize::MAX - 1);
    let (sync, c0, c1, r0, r1) = (crate::rt::vv::verif_kani::any_vv(), crate::rt::vv::verif_kani::any_vv(), crate::rt::vv::verif_kani::any_vv(), crate::rt::vv::verif_kani::any_vv(), crate::rt::vv::verif_kani::any_vv());
    let (ka, kb): (u8, u8) = (kani::any(), kani::any());
    // the pairs loom treats as independent
    kani::assume((ka == 0 && kb == 0) || (ka == 0 && kb == 1) || (ka == 1 && kb == 0) || (ka == 2 && kb == 2));
    let (mut e1, a1) = twin_exec(cnt, sync, c0, c1, r0, r1);
    let (mut e2, a2) = twin_exec(cnt, sync, c0, c1, r0, r1);
    // order 1: thread 0 does ka, then thread 1 does kb;  order 2: the other way round
    let ra1 = act_as(&mut e1, &a1, 0, ka);
    let rb1 = act_as(&mut e1, &a1, 1, kb);
    let rb2 = act_as(&mut e2, &a2, 1, kb);
    let ra2 = act_as(&mut e2, &a2, 0, ka);
    oblige!("C01.dep.arc.independent_actions_return_the_same_values_in_both_orders", ra1 == ra2 && rb1 == rb2);
    let (n1, s1) = av(&e1, &a1);
    let (n2, s2) = av(&e2, &a2);
    oblige!("C01.dep.arc.independent_actions_reach_the_same_object_state", n1 == n2 && vv_eq(&s1, &s2));
    let (v1, v2) = (set_view(&e1.threads), set_view(&e2.threads));
    oblige!("C01.dep.arc.independent_actions_leave_the_same_thread_views",
        vv_eq(&v1.th[0].causality, &v2.th[0].causality) && vv_eq(&v1.th[1].causality, &v2.th[1].causality));
    reach!("c01_arc_commute");
}
}
