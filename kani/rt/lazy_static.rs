//! Helpers for `rt::lazy_static` (child module of `rt::lazy_static`).
//! LIMIT: the statics map is a `HashMap` (hashbrown: not executable by Kani) - only the
//! Option-level protocol (new / drop / reset) is under contract; get_static / init_static are not.
use super::*;

pub(crate) fn is_live_and_empty(s: &Set) -> bool {
    match &s.statics {
        Some(m) => m.is_empty(),
        None => false,
    }
}
