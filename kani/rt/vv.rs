//! Contracts for `rt::vv::VersionVec` (layer S: clocks).  Child module of `rt::vv`.
use super::*;
use crate::{oblige, reach};
use std::cmp::Ordering as O;

/// Fully symbolic clock: five unconstrained u16 components.
pub(crate) fn any_vv() -> VersionVec {
    VersionVec { versions: kani::any() }
}

/// Clock whose components can still be incremented (assumption A6: no u16 overflow).
pub(crate) fn any_vv_incrementable() -> VersionVec {
    let v = any_vv();
    let mut i = 0;
    while i < MAX_THREADS {
        kani::assume(v.versions[i] < u16::MAX);
        i += 1;
    }
    v
}

pub(crate) fn zero_vv() -> VersionVec {
    VersionVec { versions: [0; MAX_THREADS] }
}

// ---- spec functions (the contract vocabulary) -------------------------------------------------

pub(crate) fn get(v: &VersionVec, i: usize) -> u16 {
    v.versions[i]
}

/// `a <= b` in the product order.
pub(crate) fn le(a: &VersionVec, b: &VersionVec) -> bool {
    let mut i = 0;
    let mut r = true;
    while i < MAX_THREADS {
        if a.versions[i] > b.versions[i] {
            r = false;
        }
        i += 1;
    }
    r
}

pub(crate) fn eq(a: &VersionVec, b: &VersionVec) -> bool {
    let mut i = 0;
    let mut r = true;
    while i < MAX_THREADS {
        if a.versions[i] != b.versions[i] {
            r = false;
        }
        i += 1;
    }
    r
}

/// `r == a ⊔ b` (pointwise maximum).
pub(crate) fn is_join(r: &VersionVec, a: &VersionVec, b: &VersionVec) -> bool {
    let mut i = 0;
    let mut ok = true;
    while i < MAX_THREADS {
        let m = if a.versions[i] >= b.versions[i] { a.versions[i] } else { b.versions[i] };
        if r.versions[i] != m {
            ok = false;
        }
        i += 1;
    }
    ok
}

pub(crate) fn join_of(a: &VersionVec, b: &VersionVec) -> VersionVec {
    let mut r = *a;
    let mut i = 0;
    while i < MAX_THREADS {
        if b.versions[i] > r.versions[i] {
            r.versions[i] = b.versions[i];
        }
        i += 1;
    }
    r
}

/// `r` equals `a` except component `k`, which is `a[k] + 1`.
pub(crate) fn is_inc(r: &VersionVec, a: &VersionVec, k: usize) -> bool {
    let mut i = 0;
    let mut ok = true;
    while i < MAX_THREADS {
        let want = if i == k { a.versions[i].wrapping_add(1) } else { a.versions[i] };
        if r.versions[i] != want {
            ok = false;
        }
        i += 1;
    }
    ok && a.versions[k] < u16::MAX
}

// ---- contract harnesses -----------------------------------------------------------------------

//@ props=C02,C03,C04 tier=quick fns=src/rt/vv.rs::VersionVec::join
#[kani::proof]
#[kani::unwind(7)]
fn s_vv_join() {
    let a = any_vv();
    let b = any_vv();
    let b0 = b;
    let mut r = a;
    r.join(&b);
    oblige!("S.vv.join.pointwise_max", is_join(&r, &a, &b0));
    oblige!("S.vv.join.upper_bound", le(&a, &r) && le(&b0, &r));
    // least: any upper bound of a and b is above r
    let u = any_vv();
    oblige!("S.vv.join.least", !(le(&a, &u) && le(&b0, &u)) || le(&r, &u));
    oblige!("S.vv.join.frame_other", eq(&b, &b0));
    reach!("s_vv_join");
}

//@ props=C01,C03,C04 tier=quick fns=src/rt/vv.rs::VersionVec::partial_cmp
#[kani::proof]
#[kani::unwind(7)]
fn s_vv_order() {
    let a = any_vv();
    let b = any_vv();
    let r = a.partial_cmp(&b);
    let ab = le(&a, &b);
    let ba = le(&b, &a);
    oblige!("S.vv.order.equal", (r == Some(O::Equal)) == (ab && ba));
    oblige!("S.vv.order.less", (r == Some(O::Less)) == (ab && !ba));
    oblige!("S.vv.order.greater", (r == Some(O::Greater)) == (ba && !ab));
    oblige!("S.vv.order.incomparable", r.is_none() == (!ab && !ba));
    // the derived operators used by loom: `<=` (Access::happens_before) and `<` (coherence)
    oblige!("S.vv.order.le_operator", (a <= b) == ab);
    oblige!("S.vv.order.lt_operator", (a < b) == (ab && !ba));
    reach!("s_vv_order");
}

//@ props=C04 tier=quick fns=src/rt/vv.rs::VersionVec::ahead
#[kani::proof]
#[kani::unwind(7)]
fn s_vv_ahead() {
    let a = any_vv();
    let b = any_vv();
    let r = a.ahead(&b);
    oblige!("S.vv.ahead.none_iff_le", r.is_none() == le(&b, &a));
    if let Some(i) = r {
        oblige!("S.vv.ahead.witness", i < MAX_THREADS && get(&a, i) < get(&b, i));
        let j: usize = kani::any();
        kani::assume(j < i);
        oblige!("S.vv.ahead.minimal", get(&a, j) >= get(&b, j));
    }
    reach!("s_vv_ahead");
}

//@ props=C03,C04 tier=quick fns=src/rt/vv.rs::VersionVec::inc,src/rt/vv.rs::VersionVec::new
#[kani::proof]
#[kani::unwind(7)]
fn s_vv_inc() {
    let a = any_vv_incrementable();
    let k: usize = kani::any();
    kani::assume(k < MAX_THREADS);
    let id = thread::Id::new(execution::Id::new(), k);
    let mut r = a;
    r.inc(id);
    oblige!("S.vv.inc.only_own_component_plus_one", is_inc(&r, &a, k));
    oblige!("S.vv.index", r[id] == get(&r, k));
    let z = VersionVec::new();
    oblige!("S.vv.new.zero", eq(&z, &zero_vv()) && le(&z, &a));
    reach!("s_vv_inc");
}

// ---- contract models (stubs for callers; each is the unique function satisfying the contract
// ---- proved by the harness named in the comment) ---------------------------------------------
impl VersionVec {
    /// Model of `VersionVec::join` = the pointwise maximum (proved: s_vv_join).
    pub(crate) fn join_model(&mut self, other: &VersionVec) {
        let mut i = 0;
        while i < MAX_THREADS {
            if other.versions[i] > self.versions[i] {
                self.versions[i] = other.versions[i];
            }
            i += 1;
        }
    }

    /// Model of `VersionVec::ahead` = least index where `self < other` (proved: s_vv_ahead).
    pub(crate) fn ahead_model(&self, other: &VersionVec) -> Option<usize> {
        let mut r = None;
        let mut i = MAX_THREADS;
        while i > 0 {
            i -= 1;
            if self.versions[i] < other.versions[i] {
                r = Some(i);
            }
        }
        r
    }
}

//@ props=C02,C03,C04 tier=quick fns=src/rt/vv.rs::VersionVec::join,src/rt/vv.rs::VersionVec::ahead
#[kani::proof]
#[kani::unwind(7)]
fn s_vv_models_agree() {
    // the models used as stubs elsewhere compute exactly what the real functions compute
    let a = any_vv();
    let b = any_vv();
    let mut r1 = a;
    r1.join(&b);
    let mut r2 = a;
    r2.join_model(&b);
    oblige!("S.vv.join.model_equals_real", eq(&r1, &r2));
    oblige!("S.vv.ahead.model_equals_real", a.ahead(&b) == a.ahead_model(&b));
    reach!("s_vv_models_agree");
}
