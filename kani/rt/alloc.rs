//! C10: contracts for `rt::alloc` (child module of `rt::alloc`).
//! LIMIT: `rt::alloc::alloc/dealloc` keep raw allocations in a `HashMap<usize, Allocation>`
//! (hashbrown: not executable by Kani, see rwlock.rs) and are NOT under contract.
use super::*;
use crate::rt::thread::verif_kani::*;
use crate::{oblige, reach};
use std::mem::ManuallyDrop;

pub(crate) fn any_alloc_state() -> State {
    State { is_dropped: kani::any(), allocated: Location::disabled() }
}

//@ props=C10 tier=quick fns=src/rt/alloc.rs::State::check_for_leaks expect_panic=Allocation_leaked
#[kani::proof]
fn c10_alloc_leak_reported() {
    let mut st = any_alloc_state();
    st.is_dropped = false;
    st.check_for_leaks(kani::any());
    crate::must_not_reach!("C10.alloc.check_for_leaks_returns_despite_live_allocation");
}

//@ props=C10 tier=quick fns=src/rt/alloc.rs::State::check_for_leaks
#[kani::proof]
fn c10_alloc_no_leak_silent() {
    let mut st = any_alloc_state();
    st.is_dropped = true;
    st.check_for_leaks(kani::any());
    oblige!("C10.alloc.dropped_allocation_is_not_reported", true);
    reach!("c10_alloc_no_leak");
}

//@ props=C10 tier=quick fns=src/rt/alloc.rs::Allocation::new,src/rt/alloc.rs::Allocation::drop bounded=threads:N=1
#[kani::proof]
#[kani::unwind(7)]
#[kani::stub(std::hash::RandomState::new, crate::rt::thread::verif_kani::fixed_random_state)]
fn c10_allocation_new_and_drop() {
    let set = any_set(1);
    let mut ex = crate::rt::execution::verif_kani::exec_with(ManuallyDrop::into_inner(set), 4);
    let al = crate::rt::scheduler::verif_kani::with_ctx(&mut ex, || Allocation::new(Location::disabled()));
    let idx = crate::rt::object::verif_kani::ref_index(&al.state);
    let live = !al.state.get(crate::rt::execution::verif_kani::objects(&ex)).is_dropped;
    oblige!("C10.allocation.new_is_tracked_live", live && idx == 0 && crate::rt::object::verif_kani::store_len(crate::rt::execution::verif_kani::objects(&ex)) == 1);
    let st_ref = al.state;
    crate::rt::scheduler::verif_kani::with_ctx(&mut ex, || drop(al));
    let dropped = st_ref.get(crate::rt::execution::verif_kani::objects(&ex)).is_dropped;
    oblige!("C10.allocation.drop_marks_dropped_and_keeps_entry", dropped && crate::rt::object::verif_kani::store_len(crate::rt::execution::verif_kani::objects(&ex)) == 1);
    reach!("c10_allocation_new_and_drop");
}

pub(crate) fn is_live(s: &State) -> bool {
    !s.is_dropped
}
