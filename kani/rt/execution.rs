//! Generators and contracts for `rt::execution` (child module of `rt::execution`).
use super::*;
use std::mem::ManuallyDrop;

/// An `Execution` around the given thread set: empty object store (capacity `cap`), empty path
/// (capacity `cap`), no preemption bound, exploring.
pub(crate) fn exec_with(threads: thread::Set, cap: usize) -> ManuallyDrop<Execution> {
    ManuallyDrop::new(Execution {
        id: threads.execution_id(),
        path: Path::new(cap, None, true),
        threads,
        lazy_statics: lazy_static::Set::new(),
        objects: object::Store::with_capacity(cap),
        raw_allocations: HashMap::new(),
        arc_objs: HashMap::new(),
        max_threads: crate::rt::MAX_THREADS,
        max_history: 7,
        location: false,
        log: false,
    })
}

pub(crate) fn exec_with_path(threads: thread::Set, path: Path, cap: usize) -> ManuallyDrop<Execution> {
    ManuallyDrop::new(Execution {
        id: threads.execution_id(),
        path,
        threads,
        lazy_statics: lazy_static::Set::new(),
        objects: object::Store::with_capacity(cap),
        raw_allocations: HashMap::new(),
        arc_objs: HashMap::new(),
        max_threads: crate::rt::MAX_THREADS,
        max_history: 7,
        location: false,
        log: false,
    })
}

pub(crate) fn objects(e: &Execution) -> &object::Store {
    &e.objects
}
pub(crate) fn objects_mut(e: &mut Execution) -> &mut object::Store {
    &mut e.objects
}
pub(crate) fn id_raw(e: &Execution) -> usize {
    e.id.0
}

impl Execution {
    /// Contract model of `Execution::schedule` for a one-thread execution whose thread stays
    /// runnable: nothing to race with, nobody to switch to => returns `false`, thread set unchanged.
    /// (Proved for the real function by `c05_schedule_n1`; the path gains one Schedule entry, which
    /// the single-thread atomic glue never reads back.)
    pub(crate) fn schedule_model_n1(&mut self) -> bool {
        assert!(crate::rt::thread::verif_kani::len(&self.threads) == 1, "OBL:MODEL.schedule_n1.pre_one_thread");
        assert!(self.threads.active().is_runnable(), "OBL:MODEL.schedule_n1.pre_runnable");
        false
    }
}

// ---- probe model of `Execution::schedule` for callers' contracts -------------------------------
// Callers (park, yield_now, branch, thread_done ...) are verified against schedule's *interface*:
// "called exactly once, in the state the caller must have prepared; returns whether to switch".
// The probe records the call and the thread state at the call, returns an arbitrary bool and leaves
// the execution untouched (schedule's own effect is verified separately: c05_schedule_*).
pub(crate) static mut SCHEDULE_CALLS: u32 = 0;
pub(crate) static mut SCHEDULE_SAW: Option<crate::rt::thread::verif_kani::SetView> = None;

impl Execution {
    pub(crate) fn schedule_probe_model(&mut self) -> bool {
        unsafe {
            SCHEDULE_CALLS += 1;
            SCHEDULE_SAW = Some(crate::rt::thread::verif_kani::set_view(&self.threads));
        }
        kani::any()
    }
}

pub(crate) fn schedule_calls() -> u32 {
    unsafe { SCHEDULE_CALLS }
}
pub(crate) fn schedule_saw() -> Option<crate::rt::thread::verif_kani::SetView> {
    unsafe { SCHEDULE_SAW }
}

impl Execution {
    /// Probe for callers that block themselves before scheduling: `schedule` then returns `true`
    /// (proved: c05_schedule_* clause `blocked_caller_always_switches`).
    pub(crate) fn schedule_probe_blocked_model(&mut self) -> bool {
        unsafe {
            SCHEDULE_CALLS += 1;
            SCHEDULE_SAW = Some(crate::rt::thread::verif_kani::set_view(&self.threads));
        }
        let a = crate::rt::thread::verif_kani::active_index(&self.threads).unwrap();
        let t = crate::rt::thread::verif_kani::thread_at(&self.threads, a);
        if t.is_runnable() { kani::any() } else { true }
    }
}

// ================================================================================================
// C05 / C18 / C01.sched: Execution::schedule (real function, real Path, real object store)
// ================================================================================================
use crate::rt::path::verif_kani as pv;
use crate::rt::thread::verif_kani as tv;
use crate::rt::vv::verif_kani as vvk;
use crate::{must_not_reach, oblige, reach};

const SN: usize = 3;

/// SN threads (symbolic states / clocks / pending operations on mutex 0 or 1), a path holding one
/// earlier symbolic entry (position 0) and positioned at a NEW branch point, two mutex objects whose
/// DPOR last-access records (if any) point at path position 0.
fn schedule_exec() -> ManuallyDrop<Execution> {
    let mut set = tv::any_set(SN);
    tv::any_pending_ops(&mut set, |k| match k {
        0 => None,
        1 => Some(crate::rt::object::verif_kani::op_opaque(0)),
        _ => Some(crate::rt::object::verif_kani::op_opaque(1)),
    });
    kani::assume(tv::wf_thread_ops(&set));
    tv::assume_incrementable(&set);
    let path = pv::any_path(1, 4);
    let v = pv::path_view(&path);
    kani::assume(pv::wf_path(&v) && v.pos == 1 && v.cap >= 2);
    // the earlier branch was committed: if it is a schedule branch it has its active thread
    if let pv::EntryView::Schedule { threads, .. } = v.entries[0] {
        kani::assume(pv::count_of(&threads, pv::ACTIVE) == 1);
    }
    let mut ex = exec_with_path(ManuallyDrop::into_inner(set), ManuallyDrop::into_inner(path), 4);
    ex.objects.insert(crate::rt::mutex::verif_kani::mutex_state_with_access(0));
    ex.objects.insert(crate::rt::mutex::verif_kani::mutex_state_with_access(0));
    ex
}

fn runnable(v: &tv::ThView) -> bool {
    matches!(v.st, tv::StView::Runnable { .. })
}

fn schedule_body() {
    let mut ex = schedule_exec();
    let old = tv::set_view(&ex.threads);
    let a = old.active.unwrap();
    let oa = old.th[a];
    let pold = pv::path_view(&ex.path);
    let acc = [crate::rt::mutex::verif_kani::last_access_of(&ex, 0), crate::rt::mutex::verif_kani::last_access_of(&ex, 1)];
    let n_run = runnable(&old.th[0]) as u8 + runnable(&old.th[1]) as u8 + runnable(&old.th[2]) as u8;
    let n_yield = (old.th[0].st == tv::StView::Yield) as u8 + (old.th[1].st == tv::StView::Yield) as u8 + (old.th[2].st == tv::StView::Yield) as u8;
    let all_term = old.th[0].st == tv::StView::Terminated && old.th[1].st == tv::StView::Terminated && old.th[2].st == tv::StView::Terminated;
    // no-deadlock precondition; the deadlock report itself is c05_schedule_reports_deadlock
    kani::assume(n_run + n_yield > 0 || all_term);

    let ret = ex.schedule();

    let new = tv::set_view(&ex.threads);
    let pnew = pv::path_view(&ex.path);

    // ---- (a) DPOR: backtrack points for every pending operation racing with the recorded access
    let mut e0 = pold.entries[0];
    let mut i = 0;
    while i < SN {
        let t = old.th[i];
        if let Some((obj, _)) = t.op {
            let rec = if obj == 0 { acc[0] } else { acc[1] };
            if let Some((_pid, v)) = rec {
                if !vvk::le(&v, &t.dpor_vv) {
                    if matches!(e0, pv::EntryView::Schedule { exploring: true, .. }) {
                        e0 = pv::spec_sched_backtrack(&e0, i, pold.bound);
                    }
                }
            }
        }
        i += 1;
    }
    oblige!("C01.sched.backtrack_point_inserted_for_every_unordered_dependent_pending_operation", pnew.entries[0] == e0);

    // ---- (b) choice of the thread to run first (C18: a yielded thread never beats a runnable one)
    let mut initial: Option<usize> = None;
    if runnable(&oa) {
        initial = Some(a);
    } else {
        let mut i = 0;
        while i < SN {
            if runnable(&old.th[i]) {
                match initial {
                    Some(b) => {
                        let tb = old.th[b];
                        if old.th[i].yield_count < tb.yield_count {
                            initial = Some(i);
                        }
                    }
                    None => initial = Some(i),
                }
            }
            i += 1;
        }
    }
    let mut seed = [pv::DISABLED; crate::rt::MAX_THREADS];
    let mut i = 0;
    while i < SN {
        seed[i] = if initial == Some(i) {
            pv::ACTIVE
        } else if old.th[i].st == tv::StView::Yield {
            pv::YIELD
        } else if !runnable(&old.th[i]) {
            pv::DISABLED
        } else {
            pv::SKIP
        };
        i += 1;
    }
    if initial.is_none() {
        if let Some(y) = pv::first_of(&seed, pv::YIELD) {
            seed[y] = pv::ACTIVE; // only yielded threads left: one of them is re-activated (no false deadlock)
        }
    }
    let next = pv::active_of(&seed).map(|x| x as usize);
    oblige!("C18.sched.runnable_threads_take_priority_over_yielded_ones",
        !(n_run > 0) || next.map(|x| runnable(&old.th[if x == 0 { 0 } else if x == 1 { 1 } else { 2 }])).unwrap_or(false));
    oblige!("C05.sched.some_thread_is_scheduled_whenever_one_can_run", (n_run + n_yield > 0) == next.is_some());
    oblige!("C05.sched.active_is_the_chosen_thread", new.active == next && new.len == old.len);
    if let pv::EntryView::Schedule { threads, prev, exploring, .. } = pnew.entries[1] {
        oblige!("C01.sched.new_branch_records_status_of_every_thread", threads == seed && exploring == pold.exploring
            && prev == (if matches!(pold.entries[0], pv::EntryView::Schedule { .. }) { Some(0) } else { None }));
    } else {
        oblige!("C01.sched.new_branch_is_a_schedule_entry", false);
    }
    oblige!("C01.sched.path_advances_by_one_branch", pnew.len == 2 && pnew.pos == 2);
    oblige!("C05.sched.returns_whether_a_switch_is_needed", ret == (next != Some(a)));

    // ---- (d) DPOR clock of the scheduled thread, (e) yield re-activation, frame
    let mut i = 0;
    while i < SN {
        let (o, n) = (old.th[i], new.th[i]);
        let mut want_dpor = o.dpor_vv;
        if next == Some(i) {
            if let Some((obj, _)) = o.op {
                let rec = if obj == 0 { acc[0] } else { acc[1] };
                if let Some((_p, v)) = rec {
                    want_dpor = vvk::join_of(&want_dpor, &v);
                }
                let mut w = want_dpor;
                w.inc(tv::id_of(&ex.threads, i));
                want_dpor = w;
            }
        }
        oblige!("C01.sched.dpor_clock_of_scheduled_thread_joins_the_dependent_access_and_ticks", vvk::eq(&n.dpor_vv, &want_dpor));
        let want_st = if o.st == tv::StView::Yield && next != Some(i) { tv::woken(&o) } else { o.st };
        oblige!("C18.sched.other_yielded_threads_are_reactivated_nobody_else_changes_state", n.st == want_st);
        oblige!("C08.token_kept.schedule", tv::has_token(&n) == tv::has_token(&o));
        oblige!("C05.sched.frame_thread_views", vvk::eq(&n.causality, &o.causality) && vvk::eq(&n.released, &o.released) && n.op == o.op
            && n.yield_count == o.yield_count && n.last_yield == o.last_yield);
        i += 1;
    }
    // set_last_access for the scheduled thread's pending operation: recorded at the pre-call path position
    if let Some(nx) = next {
        let t = if nx == 0 { old.th[0] } else if nx == 1 { old.th[1] } else { old.th[2] };
        let tn = if nx == 0 { new.th[0] } else if nx == 1 { new.th[1] } else { new.th[2] };
        if let Some((obj, _)) = t.op {
            let rec_new = if obj == 0 { crate::rt::mutex::verif_kani::last_access_of(&ex, 0) } else { crate::rt::mutex::verif_kani::last_access_of(&ex, 1) };
            oblige!("C01.sched.records_this_access_as_the_objects_last_access",
                rec_new.map(|(p, v)| p == 1 && vvk::eq(&v, &tn.dpor_vv)) == Some(true));
        }
    }
    reach!("c05_schedule");
}

//@ props=C05,C18,C01,C15 tier=quick timeout=2400 fns=src/rt/execution.rs::Execution::schedule,src/rt/object.rs::Store::last_dependent_access,src/rt/object.rs::Store::set_last_access,src/rt/mutex.rs::State::last_dependent_access,src/rt/mutex.rs::State::set_last_access,src/rt/thread.rs::Set::set_active,src/rt/path.rs::Path::branch_thread,src/rt/path.rs::Path::backtrack bounded=threads:N=3,path:depth=1,objects:2_mutexes models=VersionVec::join=s_vv_models_agree,Path::backtrack=c01_path_backtrack*,Schedule::active_thread_index=c15_schedule_preemptions
#[kani::proof]
#[kani::unwind(8)]
#[kani::stub(std::hash::RandomState::new, crate::rt::thread::verif_kani::fixed_random_state)]
#[kani::stub(crate::rt::vv::VersionVec::join, crate::rt::vv::VersionVec::join_model)]
#[kani::stub(crate::rt::path::Schedule::active_thread_index, crate::rt::path::Schedule::active_thread_index_model)]
#[kani::stub(crate::rt::path::Path::backtrack, crate::rt::path::Path::backtrack_model)]
fn c05_schedule_n3() {
    schedule_body();
}

//@ props=C05 tier=quick timeout=2400 fns=src/rt/execution.rs::Execution::schedule bounded=threads:N=3,path:depth=1 expect_panic=deadlock
#[kani::proof]
#[kani::unwind(8)]
#[kani::stub(std::hash::RandomState::new, crate::rt::thread::verif_kani::fixed_random_state)]
#[kani::stub(crate::rt::vv::VersionVec::join, crate::rt::vv::VersionVec::join_model)]
#[kani::stub(crate::rt::path::Schedule::active_thread_index, crate::rt::path::Schedule::active_thread_index_model)]
#[kani::stub(crate::rt::path::Path::backtrack, crate::rt::path::Path::backtrack_model)]
fn c05_schedule_reports_deadlock() {
    // no thread can take a step (none Runnable, none Yield) and at least one has not finished
    let mut ex = schedule_exec();
    let old = tv::set_view(&ex.threads);
    let mut any_can_run = false;
    let mut all_term = true;
    let mut i = 0;
    while i < SN {
        any_can_run = any_can_run || runnable(&old.th[i]) || old.th[i].st == tv::StView::Yield;
        all_term = all_term && old.th[i].st == tv::StView::Terminated;
        i += 1;
    }
    kani::assume(!any_can_run && !all_term);
    let _ = ex.schedule();
    must_not_reach!("C05.sched.deadlock_goes_unreported");
}

// ================================================================================================
// C16: Execution::step resets every piece of per-iteration state;  S.newthread;  C19: Execution::new
// ================================================================================================

//@ props=C16,C14 tier=quick timeout=1500 fns=src/rt/execution.rs::Execution::step,src/rt/thread.rs::Set::clear,src/rt/object.rs::Store::clear,src/rt/lazy_static.rs::Set::reset,src/rt/execution.rs::Id::new bounded=threads_before_clear:0,path:depth=1,objects:1,raw_allocations:empty,arc_objs:empty models=VersionVec::join=s_vv_models_agree
#[kani::proof]
#[kani::unwind(8)]
#[kani::stub(std::hash::RandomState::new, crate::rt::thread::verif_kani::fixed_random_state)]
fn c16_execution_step_resets_everything() {
    // end-of-iteration state: 3 threads with arbitrary states/clocks/pending operations, 2 objects,
    // a 2-entry path; lazy statics already dropped (as `Builder::check` does before stepping)
    // LIMIT (see c16_set_clear_resets_thread_state): thread vector already empty, other fields arbitrary
    let set = tv::empty_set_any_fields();
    let path = pv::any_path(1, 4);
    let pv0 = pv::path_view(&path);
    kani::assume(pv::wf_path(&pv0));
    let mut ex = exec_with_path(ManuallyDrop::into_inner(set), ManuallyDrop::into_inner(path), 4);
    ex.objects.insert(crate::rt::mutex::verif_kani::mutex_state_with_access(0));
    let _ = ex.lazy_statics.drop();
    ex.location = kani::any();
    ex.log = kani::any();
    let (old_id, old_loc, old_log, old_max) = (ex.id.0, ex.location, ex.log, ex.max_threads);
    // what Path::step will answer (its own contract: c14_path_step)
    let has_next = {
        let mut r = false;
        let mut i = 0;
        while i < 1 {
            if pv::is_exploring(&pv0.entries[i]) && pv::has_alternative(&pv0.entries[i]) {
                r = true;
            }
            i += 1;
        }
        r
    };
    let next = ManuallyDrop::into_inner(ex).step();
    oblige!("C16.step.none_iff_path_exhausted", next.is_some() == has_next);
    if let Some(n) = next {
        let n = ManuallyDrop::new(n);
        let s = tv::set_view(&n.threads);
        oblige!("C16.step.exactly_one_fresh_main_thread", s.len == 1 && s.active == Some(0)
            && s.th[0].st == (tv::StView::Runnable { unparked: false }) && s.th[0].op.is_none() && !s.th[0].critical
            && vvk::eq(&s.th[0].causality, &vvk::zero_vv()) && vvk::eq(&s.th[0].released, &vvk::zero_vv()) && vvk::eq(&s.th[0].dpor_vv, &vvk::zero_vv())
            && s.th[0].last_yield.is_none() && s.th[0].yield_count == 0 && tv::locals_len(&n.threads, 0) == 0);
        oblige!("C16.step.sc_fence_view_reset", vvk::eq(&s.seq_cst, &vvk::zero_vv()));
        oblige!("C16.step.object_store_empty", crate::rt::object::verif_kani::store_len(&n.objects) == 0);
        oblige!("C16.step.allocation_and_arc_registries_empty", n.raw_allocations.is_empty() && n.arc_objs.is_empty());
        oblige!("C16.step.lazy_statics_reinitialised_empty", crate::rt::lazy_static::verif_kani::is_live_and_empty(&n.lazy_statics));
        oblige!("C16.step.fresh_execution_id_shared_with_threads", n.id.0 != old_id && tv::wf_set(&n.threads) && n.threads.execution_id() == n.id);
        oblige!("C16.step.configuration_carried_over", n.location == old_loc && n.log == old_log && n.max_threads == old_max && n.max_history == 7);
        let p = pv::path_view(&n.path);
        oblige!("C16.step.path_rewound_to_start", p.pos == 0 && !p.skipping && p.exploring == pv0.exploring_on_start);
        reach!("c16_step_some");
    }
}

//@ props=C16,C17 tier=quick fns=src/rt/lazy_static.rs::Set::reset,src/rt/lazy_static.rs::Set::drop,src/rt/lazy_static.rs::Set::new expect_panic=was_not_dropped_during_execution
#[kani::proof]
#[kani::unwind(8)]
#[kani::stub(std::hash::RandomState::new, crate::rt::thread::verif_kani::fixed_random_state)]
fn c16_lazy_reset_requires_drop() {
    let mut s = ManuallyDrop::new(lazy_static::Set::new());
    s.reset(); // not dropped => the documented assertion fires
    must_not_reach!("C16.lazy.reset_without_drop_goes_unreported");
}

crate::with_fire_forbidden! {
//@ props=C04,C19 tier=quick fns=src/rt/execution.rs::Execution::new_thread,src/rt/thread.rs::Set::new_thread,src/rt/thread.rs::Set::active2_mut bounded=threads:N=3 models=VersionVec::join=s_vv_models_agree
#[kani::proof]
#[kani::unwind(8)]
fn s_execution_new_thread() {
    let set = tv::any_set_cap(SN, 5);
    tv::assume_incrementable(&set);
    let old = tv::set_view(&set);
    let a = old.active.unwrap();
    let oa = old.th[a];
    let mut ex = exec_with(ManuallyDrop::into_inner(set), 4);
    let id = ex.new_thread();
    let new = tv::set_view(&ex.threads);
    oblige!("S.newthread.id_is_previous_len", id.as_usize() == SN && new.len == SN + 1 && new.active == old.active);
    let child = new.th[SN];
    let na = new.th[a];
    // spawn edge (C04): everything the parent did happens-before the child's first step
    let mut want_child = oa.causality;
    want_child.inc(id);
    oblige!("S.newthread.child_starts_with_exactly_parents_view_plus_own_tick", vvk::eq(&child.causality, &want_child));
    oblige!("S.newthread.parent_ticks_own_component_only", vvk::is_inc(&na.causality, &oa.causality, a));
    oblige!("S.newthread.child_dpor_clock_is_parents", vvk::eq(&child.dpor_vv, &oa.dpor_vv) && vvk::eq(&na.dpor_vv, &oa.dpor_vv));
    oblige!("S.newthread.child_runnable_without_token_or_operation", child.st == (tv::StView::Runnable { unparked: false }) && child.op.is_none()
        && vvk::eq(&child.released, &vvk::zero_vv()) && child.yield_count == 0 && child.last_yield.is_none());
    let mut i = 0;
    while i < SN {
        oblige!("S.newthread.frame_other_threads", i == a || tv::th_view_eq(&old.th[i], &new.th[i]));
        i += 1;
    }
    oblige!("S.newthread.parent_otherwise_unchanged", tv::th_view_eq_except_causality(&oa, &na));
    reach!("s_execution_new_thread");
}
}

//@ props=C19,C15,C16 tier=quick fns=src/rt/execution.rs::Execution::new,src/rt/thread.rs::Set::new,src/rt/path.rs::Path::new,src/rt/object.rs::Store::with_capacity
#[kani::proof]
#[kani::unwind(8)]
#[kani::stub(std::hash::RandomState::new, crate::rt::thread::verif_kani::fixed_random_state)]
fn c19_execution_new() {
    let (mt, mb): (usize, usize) = (kani::any(), kani::any());
    kani::assume(mt >= 1 && mt <= crate::rt::MAX_THREADS && mb <= 4);
    let pb: Option<usize> = kani::any();
    kani::assume(match pb { Some(b) => b <= u8::MAX as usize, None => true });
    let expl: bool = kani::any();
    let ex = ManuallyDrop::new(Execution::new(mt, mb, pb, expl));
    let p = pv::path_view(&ex.path);
    oblige!("C19.new.limits_recorded", ex.max_threads == mt && ex.threads.max() >= mt && p.cap >= mb);
    oblige!("C15.new.preemption_bound_recorded", p.bound == pb.map(|b| b as u8));
    oblige!("C19.new.exploring_flag_recorded", p.exploring == expl && p.exploring_on_start == expl && !p.skipping && p.pos == 0 && p.len == 0);
    let s = tv::set_view(&ex.threads);
    oblige!("C16.new.initial_state_is_one_fresh_main_thread", s.len == 1 && s.active == Some(0)
        && s.th[0].st == (tv::StView::Runnable { unparked: false }) && vvk::eq(&s.th[0].causality, &vvk::zero_vv())
        && vvk::eq(&s.seq_cst, &vvk::zero_vv()) && crate::rt::object::verif_kani::store_len(&ex.objects) == 0
        && ex.raw_allocations.is_empty() && ex.arc_objs.is_empty() && ex.threads.execution_id() == ex.id);
    reach!("c19_execution_new");
}

//@ props=C15,C19 tier=quick fns=src/rt/execution.rs::Execution::new expect_panic=unwrap_failed
#[kani::proof]
#[kani::unwind(8)]
#[kani::stub(std::hash::RandomState::new, crate::rt::thread::verif_kani::fixed_random_state)]
fn c15_execution_new_rejects_oversized_bound() {
    let pb: usize = kani::any();
    kani::assume(pb > u8::MAX as usize);
    let _ = ManuallyDrop::new(Execution::new(2, 2, Some(pb), true));
    must_not_reach!("C15.new.oversized_preemption_bound_accepted_silently");
}
