//! Generators and contracts for `rt::execution` (child module of `rt::execution`).
use super::*;
use std::mem::ManuallyDrop;

/// An `Execution` around the given thread set: empty object store (capacity `cap`), empty path
/// (capacity `cap`), no preemption bound, exploring.
pub(crate) fn exec_with(threads: thread::Set, cap: usize) -> ManuallyDrop<Execution> {
    ManuallyDrop::new(Execution {
        id: threads.execution_id(),
        path: Path::new(cap, None, true),
        threads,
        lazy_statics: lazy_static::Set::new(),
        objects: object::Store::with_capacity(cap),
        raw_allocations: HashMap::new(),
        arc_objs: HashMap::new(),
        max_threads: crate::rt::MAX_THREADS,
        max_history: 7,
        location: false,
        log: false,
    })
}

pub(crate) fn exec_with_path(threads: thread::Set, path: Path, cap: usize) -> ManuallyDrop<Execution> {
    ManuallyDrop::new(Execution {
        id: threads.execution_id(),
        path,
        threads,
        lazy_statics: lazy_static::Set::new(),
        objects: object::Store::with_capacity(cap),
        raw_allocations: HashMap::new(),
        arc_objs: HashMap::new(),
        max_threads: crate::rt::MAX_THREADS,
        max_history: 7,
        location: false,
        log: false,
    })
}

pub(crate) fn objects(e: &Execution) -> &object::Store {
    &e.objects
}
pub(crate) fn objects_mut(e: &mut Execution) -> &mut object::Store {
    &mut e.objects
}
pub(crate) fn id_raw(e: &Execution) -> usize {
    e.id.0
}

impl Execution {
    /// Contract model of `Execution::schedule` for a one-thread execution whose thread stays
    /// runnable: nothing to race with, nobody to switch to => returns `false`, thread set unchanged.
    /// (Proved for the real function by `c05_schedule_n1`; the path gains one Schedule entry, which
    /// the single-thread atomic glue never reads back.)
    pub(crate) fn schedule_model_n1(&mut self) -> bool {
        assert!(crate::rt::thread::verif_kani::len(&self.threads) == 1, "OBL:MODEL.schedule_n1.pre_one_thread");
        assert!(self.threads.active().is_runnable(), "OBL:MODEL.schedule_n1.pre_runnable");
        false
    }
}

// ---- probe model of `Execution::schedule` for callers' contracts -------------------------------
// Callers (park, yield_now, branch, thread_done ...) are verified against schedule's *interface*:
// "called exactly once, in the state the caller must have prepared; returns whether to switch".
// The probe records the call and the thread state at the call, returns an arbitrary bool and leaves
// the execution untouched (schedule's own effect is verified separately: c05_schedule_*).
pub(crate) static mut SCHEDULE_CALLS: u32 = 0;
pub(crate) static mut SCHEDULE_SAW: Option<crate::rt::thread::verif_kani::SetView> = None;

impl Execution {
    pub(crate) fn schedule_probe_model(&mut self) -> bool {
        unsafe {
            SCHEDULE_CALLS += 1;
            SCHEDULE_SAW = Some(crate::rt::thread::verif_kani::set_view(&self.threads));
        }
        kani::any()
    }
}

pub(crate) fn schedule_calls() -> u32 {
    unsafe { SCHEDULE_CALLS }
}
pub(crate) fn schedule_saw() -> Option<crate::rt::thread::verif_kani::SetView> {
    unsafe { SCHEDULE_SAW }
}

impl Execution {
    /// Probe for callers that block themselves before scheduling: `schedule` then returns `true`
    /// (proved: c05_schedule_* clause `blocked_caller_always_switches`).
    pub(crate) fn schedule_probe_blocked_model(&mut self) -> bool {
        unsafe {
            SCHEDULE_CALLS += 1;
            SCHEDULE_SAW = Some(crate::rt::thread::verif_kani::set_view(&self.threads));
        }
        let a = crate::rt::thread::verif_kani::active_index(&self.threads).unwrap();
        let t = crate::rt::thread::verif_kani::thread_at(&self.threads, a);
        if t.is_runnable() { kani::any() } else { true }
    }
}
