//! C07 / C05: contracts for `rt::rwlock` (child module of `rt::rwlock`).
//! The reader set is a `HashSet<thread::Id>`; Kani cannot execute hashbrown.  In the verification build
//! the import line `use std::collections::HashSet;` of rt/rwlock.rs is substituted (one line, checked by
//! lib/scratch.py::substitute_deps) by the array-backed set of `kani/common/vecset.rs`, which implements
//! the ASSUMED contract of the dependency (finite mathematical set, assumption A9).  With that, the read
//! side (`try_acquire_read_lock`, `post_acquire_read_lock`, `release_read_lock`) is under contract too.
use super::*;
use crate::rt::object::verif_kani::{mk_op, ref_index};
use crate::rt::synchronize::verif_kani::{any_sync, hb as sync_hb};
use crate::rt::thread::verif_kani::*;
use crate::rt::vv::verif_kani::{eq as vv_eq, is_join, join_of};
use crate::{oblige, reach};
use std::mem::ManuallyDrop;

#[path = "../common/vecset.rs"]
pub(crate) mod vecset;

pub(crate) const N: usize = 3;

/// Abstract lock state: bit i of `readers` set <=> thread i holds a read guard.
#[derive(Clone, Copy, PartialEq, Eq)]
pub(crate) enum LockView {
    Free,
    Read { readers: u8 },
    Write { writer: usize },
}

pub(crate) fn lock_view(s: &State, set: &thread::Set) -> LockView {
    match &s.lock {
        None => LockView::Free,
        Some(Locked::Write(w)) => LockView::Write { writer: w.as_usize() },
        Some(Locked::Read(r)) => {
            let mut bits = 0u8;
            if r.contains(&id_of(set, 0)) { bits |= 1; }
            if r.contains(&id_of(set, 1)) { bits |= 2; }
            if r.contains(&id_of(set, 2)) { bits |= 4; }
            // representation invariant of the view: nothing but ids of the N threads is in the set
            let extra = r.len() != (bits & 1) as usize + ((bits >> 1) & 1) as usize + ((bits >> 2) & 1) as usize;
            LockView::Read { readers: if extra { 0x80 | bits } else { bits } }
        }
    }
}

/// Symbolic lock state over thread ids 0..N (reader set built with concrete ids on each path).
pub(crate) fn any_lock(set: &thread::Set) -> Option<Locked> {
    let k: u8 = kani::any();
    match k {
        0 => None,
        1 => Some(Locked::Write(id_of(set, 0))),
        2 => Some(Locked::Write(id_of(set, 1))),
        3 => Some(Locked::Write(id_of(set, 2))),
        _ => {
            // every non-empty reader set over the N threads (an empty set is never stored: the last
            // reader's release resets the lock to None)
            let bits: u8 = kani::any();
            kani::assume(bits >= 1 && bits < 8);
            let mut r = HashSet::new();
            if bits & 1 != 0 { r.insert(id_of(set, 0)); }
            if bits & 2 != 0 { r.insert(id_of(set, 1)); }
            if bits & 4 != 0 { r.insert(id_of(set, 2)); }
            Some(Locked::Read(r))
        }
    }
}

const READ: u8 = 40;
const WRITE: u8 = 41;

/// N threads with concrete active thread `act`; rwlock = object 0; other object 1 (a second rwlock).
fn rw_exec() -> (ManuallyDrop<crate::rt::Execution>, RwLock) {
    let mut set = any_set(N);
    any_pending_ops(&mut set, |k| match k {
        0 => None,
        1 => Some(mk_op(0, Action::Read.into())),
        2 => Some(mk_op(0, Action::Write.into())),
        _ => Some(mk_op(1, Action::Write.into())),
    });
    kani::assume(wf_thread_ops(&set));
    let lock = any_lock(&set);
    let s0 = State { lock, last_access: None, synchronize: any_sync() };
    let s1 = State { lock: None, last_access: None, synchronize: any_sync() };
    let mut ex = crate::rt::execution::verif_kani::exec_with(ManuallyDrop::into_inner(set), 4);
    let r0 = crate::rt::execution::verif_kani::objects_mut(&mut ex).insert(s0);
    let _r1 = crate::rt::execution::verif_kani::objects_mut(&mut ex).insert(s1);
    (ex, RwLock { state: r0 })
}

fn lv(ex: &crate::rt::Execution, l: &RwLock) -> (LockView, VersionVec) {
    let s = l.state.get(crate::rt::execution::verif_kani::objects(ex));
    (lock_view(s, &ex.threads), sync_hb(&s.synchronize))
}


/// Finding region F1e: another thread holds a park token while its pending operation is this lock.
fn region_token_waiter(v: &SetView) -> bool {
    let a = v.active.unwrap();
    let mut r = false;
    let mut i = 0;
    while i < v.len {
        if i != a && has_token(&v.th[i]) && v.th[i].op.map(|o| o.0) == Some(0) {
            r = true;
        }
        i += 1;
    }
    r
}

fn write_acquire_body(inside: bool) {
    let (mut ex, l) = rw_exec();
    let old = set_view(&ex.threads);
    let a = old.active.unwrap();
    let (lo, so) = lv(&ex, &l);
    kani::assume(region_token_waiter(&old) == inside);
    let ret = crate::rt::scheduler::verif_kani::with_ctx(&mut ex, || l.try_acquire_write_lock(Location::disabled()));
    let new = set_view(&ex.threads);
    let (ln, sn) = lv(&ex, &l);
    oblige!("C07.rwlock.write_acquire.succeeds_iff_free", ret == (lo == LockView::Free));
    oblige!("C07.rwlock.write_acquire.sync_point_untouched", vv_eq(&so, &sn));
    oblige!("C07.rwlock.write_acquire.lock_state", ln == if ret { LockView::Write { writer: a } } else { lo });
    let mut i = 0;
    while i < N {
        let (o, n) = (old.th[i], new.th[i]);
        if !ret {
            oblige!("C07.rwlock.write_acquire.failure_changes_no_thread", if i == a { n.op == Some((0, WRITE)) && n.st == o.st && vv_eq(&n.causality, &o.causality) } else { th_view_eq(&o, &n) });
        } else if i == a {
            oblige!("C07.rwlock.write_acquire.acquires_exactly_the_release_view", is_join(&n.causality, &o.causality, &so) && n.st == o.st && n.op == Some((0, WRITE))
                && vv_eq(&n.released, &o.released) && vv_eq(&n.dpor_vv, &o.dpor_vv));
        } else if o.op.map(|x| x.0) == Some(0) {
            oblige!("C07.rwlock.write_acquire.blocks_every_other_contender", n.st == StView::Blocked && th_view_eq_except_state(&o, &n));
            oblige!("C08.token_kept.rwlock_write_acquire", has_token(&n) == has_token(&o));
        } else {
            oblige!("C07.rwlock.write_acquire.frame_other_threads", th_view_eq(&o, &n));
        }
        i += 1;
    }
    reach!("c07_rwlock_write_acquire");
}

crate::with_fire_forbidden! {
//@ props=C07,C05,C08 tier=quick fns=src/rt/rwlock.rs::RwLock::try_acquire_write_lock,src/rt/rwlock.rs::RwLock::post_acquire_write_lock bounded=threads:N=3 models=VersionVec::join=s_vv_models_agree,Execution::schedule=probe,Scheduler::switch=counting
#[kani::proof]
#[kani::unwind(7)]
#[kani::stub(crate::rt::execution::Execution::schedule, crate::rt::execution::Execution::schedule_probe_model)]
#[kani::stub(crate::rt::scheduler::Scheduler::switch, crate::rt::scheduler::verif_kani::switch_counting_model)]
fn c07_rwlock_write_acquire__outside() {
    write_acquire_body(false);
}
}

crate::with_fire_forbidden! {
//@ props=C08 tier=quick fns=src/rt/rwlock.rs::RwLock::try_acquire_write_lock,src/rt/rwlock.rs::RwLock::post_acquire_write_lock bounded=threads:N=3 finding=F1e expect=C08.token_kept.rwlock_write_acquire
#[kani::proof]
#[kani::unwind(7)]
#[kani::stub(crate::rt::execution::Execution::schedule, crate::rt::execution::Execution::schedule_probe_model)]
#[kani::stub(crate::rt::scheduler::Scheduler::switch, crate::rt::scheduler::verif_kani::switch_counting_model)]
fn c07_rwlock_write_acquire__inside() {
    write_acquire_body(true);
}
}

fn write_release_body(inside: bool) {
    let (mut ex, l) = rw_exec();
    let old = set_view(&ex.threads);
    let a = old.active.unwrap();
    let oa = old.th[a];
    let (_lo, so) = lv(&ex, &l);
    kani::assume(region_token_waiter(&old) == inside);
    crate::rt::scheduler::verif_kani::with_ctx(&mut ex, || l.release_write_lock());
    let new = set_view(&ex.threads);
    let (ln, sn) = lv(&ex, &l);
    oblige!("C07.rwlock.write_release.lock_free", ln == LockView::Free);
    oblige!("C07.rwlock.write_release.publishes_exactly_releasers_view", vv_eq(&sn, &join_of(&join_of(&so, &oa.released), &oa.causality)));
    let mut i = 0;
    while i < N {
        let (o, n) = (old.th[i], new.th[i]);
        if i != a && o.op.map(|x| x.0) == Some(0) && o.st == StView::Blocked {
            oblige!("C07.rwlock.write_release.wakes_all_blocked_contenders", n.st == woken(&o) && !n.pending_unpark && th_view_eq_except_state(&o, &n));
        } else if i != a && o.op.map(|x| x.0) == Some(0) && has_token(&o) {
            oblige!("C08.token_kept.rwlock_release", th_view_eq(&o, &n));
        } else if i != a && o.op.map(|x| x.0) == Some(0) {
            oblige!("C07.rwlock.write_release.unblocked_contender_stays_runnable", n.st == o.st && th_view_eq_except_state(&o, &n));
        } else {
            oblige!("C07.rwlock.write_release.frame_other_threads", th_view_eq(&o, &n));
        }
        i += 1;
    }
    reach!("c07_rwlock_write_release");
}

crate::with_fire_forbidden! {
//@ props=C07,C05,C08 tier=quick fns=src/rt/rwlock.rs::RwLock::release_write_lock,src/rt/rwlock.rs::RwLock::unlock_threads bounded=threads:N=3 models=VersionVec::join=s_vv_models_agree
#[kani::proof]
#[kani::unwind(7)]
fn c07_rwlock_write_release__outside() {
    write_release_body(false);
}
}

crate::with_fire_forbidden! {
//@ props=C08 tier=quick fns=src/rt/rwlock.rs::RwLock::release_write_lock,src/rt/rwlock.rs::RwLock::unlock_threads bounded=threads:N=3 finding=F1f expect=C08.token_kept.rwlock_release
#[kani::proof]
#[kani::unwind(7)]
fn c07_rwlock_write_release__inside() {
    write_release_body(true);
}
}

crate::with_fire_forbidden! {
//@ props=C07 tier=quick fns=src/rt/rwlock.rs::RwLock::is_read_locked,src/rt/rwlock.rs::RwLock::is_write_locked,src/rt/rwlock.rs::RwLock::new bounded=threads:N=3
#[kani::proof]
#[kani::unwind(7)]
fn c07_rwlock_inspect_and_new() {
    let (mut ex, l) = rw_exec();
    let (lo, _so) = lv(&ex, &l);
    let (r, w) = crate::rt::scheduler::verif_kani::with_ctx(&mut ex, || (l.is_read_locked(), l.is_write_locked()));
    oblige!("C07.rwlock.is_read_locked.iff_shape_is_read", r == matches!(lo, LockView::Read { .. }));
    oblige!("C07.rwlock.is_write_locked.iff_shape_is_write", w == matches!(lo, LockView::Write { .. }));
    let fresh = crate::rt::scheduler::verif_kani::with_ctx(&mut ex, || RwLock::new());
    let (lf, sf) = lv(&ex, &fresh);
    oblige!("C07.rwlock.new.free_with_empty_view", lf == LockView::Free && vv_eq(&sf, &crate::rt::vv::verif_kani::zero_vv()) && ref_index(&fresh.state) == 2);
    reach!("c07_rwlock_inspect_and_new");
}
}

fn read_acquire_body() {
    let (mut ex, l) = rw_exec();
    let old = set_view(&ex.threads);
    let a = old.active.unwrap();
    let (lo, so) = lv(&ex, &l);
    let ret = crate::rt::scheduler::verif_kani::with_ctx(&mut ex, || l.try_acquire_read_lock(Location::disabled()));
    let new = set_view(&ex.threads);
    let (ln, sn) = lv(&ex, &l);
    let compatible = !matches!(lo, LockView::Write { .. });
    oblige!("C07.rwlock.read_acquire.succeeds_iff_not_write_locked", ret == compatible);
    oblige!("C07.rwlock.read_acquire.sync_point_untouched", vv_eq(&so, &sn));
    let want = match lo {
        LockView::Free => LockView::Read { readers: 1u8 << a },
        LockView::Read { readers } => LockView::Read { readers: readers | (1u8 << a) },
        w => w,
    };
    oblige!("C07.rwlock.read_acquire.reader_set_gains_exactly_the_caller", ln == want);
    let mut i = 0;
    while i < N {
        let (o, n) = (old.th[i], new.th[i]);
        if !ret {
            oblige!("C07.rwlock.read_acquire.failure_changes_no_thread", if i == a { n.op == Some((0, READ)) && n.st == o.st && vv_eq(&n.causality, &o.causality) } else { th_view_eq(&o, &n) });
        } else if i == a {
            oblige!("C07.rwlock.read_acquire.acquires_exactly_the_release_view", is_join(&n.causality, &o.causality, &so) && n.st == o.st && n.op == Some((0, READ))
                && vv_eq(&n.released, &o.released) && vv_eq(&n.dpor_vv, &o.dpor_vv));
        } else if o.op == Some((0, WRITE)) {
            oblige!("C07.rwlock.read_acquire.blocks_every_pending_writer", n.st == StView::Blocked && th_view_eq_except_state(&o, &n));
            oblige!("C08.token_kept.rwlock_read_acquire", has_token(&n) == has_token(&o));
        } else {
            oblige!("C07.rwlock.read_acquire.pending_readers_and_other_threads_untouched", th_view_eq(&o, &n));
        }
        i += 1;
    }
    reach!("c07_rwlock_read_acquire");
}

crate::with_fire_forbidden! {
//@ props=C07,C05,C08 tier=quick fns=src/rt/rwlock.rs::RwLock::try_acquire_read_lock,src/rt/rwlock.rs::RwLock::post_acquire_read_lock bounded=threads:N=3 models=VersionVec::join=s_vv_models_agree,Execution::schedule=probe,Scheduler::switch=counting,std::collections::HashSet=vecset
#[kani::proof]
#[kani::unwind(7)]
#[kani::stub(crate::rt::execution::Execution::schedule, crate::rt::execution::Execution::schedule_probe_model)]
#[kani::stub(crate::rt::scheduler::Scheduler::switch, crate::rt::scheduler::verif_kani::switch_counting_model)]
fn c07_rwlock_read_acquire() {
    read_acquire_body();
}
}

fn read_release_body() {
    let (mut ex, l) = rw_exec();
    let old = set_view(&ex.threads);
    let a = old.active.unwrap();
    let oa = old.th[a];
    let (lo, so) = lv(&ex, &l);
    // precondition: the caller holds a read guard
    let readers = match lo {
        LockView::Read { readers } => readers,
        _ => 0,
    };
    kani::assume(readers & 0x80 == 0 && readers & (1u8 << a) != 0);
    crate::rt::scheduler::verif_kani::with_ctx(&mut ex, || l.release_read_lock());
    let new = set_view(&ex.threads);
    let (ln, sn) = lv(&ex, &l);
    let rest = readers & !(1u8 << a);
    let last = rest == 0;
    oblige!("C07.rwlock.read_release.reader_set_loses_exactly_the_caller", ln == if last { LockView::Free } else { LockView::Read { readers: rest } });
    oblige!("C07.rwlock.read_release.every_reader_publishes_exactly_its_view", vv_eq(&sn, &join_of(&join_of(&so, &oa.released), &oa.causality)));
    let mut i = 0;
    while i < N {
        let (o, n) = (old.th[i], new.th[i]);
        if !last {
            oblige!("C07.rwlock.read_release.non_last_reader_wakes_nobody", th_view_eq(&o, &n));
        } else if i != a && o.op.map(|x| x.0) == Some(0) && o.st == StView::Blocked {
            oblige!("C07.rwlock.read_release.last_reader_wakes_all_blocked_contenders", n.st == woken(&o) && !n.pending_unpark && th_view_eq_except_state(&o, &n));
        } else if i != a && o.op.map(|x| x.0) == Some(0) && has_token(&o) {
            oblige!("C08.token_kept.rwlock_read_release", th_view_eq(&o, &n));
        } else if i != a && o.op.map(|x| x.0) == Some(0) {
            oblige!("C07.rwlock.read_release.unblocked_contender_stays_runnable", n.st == o.st && th_view_eq_except_state(&o, &n));
        } else {
            oblige!("C07.rwlock.read_release.frame_other_threads", th_view_eq(&o, &n));
        }
        i += 1;
    }
    reach!("c07_rwlock_read_release");
}

crate::with_fire_forbidden! {
//@ props=C07,C05,C08 tier=quick fns=src/rt/rwlock.rs::RwLock::release_read_lock,src/rt/rwlock.rs::RwLock::unlock_threads bounded=threads:N=3 models=VersionVec::join=s_vv_models_agree,std::collections::HashSet=vecset
#[kani::proof]
#[kani::unwind(7)]
fn c07_rwlock_read_release() {
    read_release_body();
}
}

/// The assumed contract of the substituted dependency holds for the substitute (sanity of A9's model).
//@ props=C07 tier=quick fns=src/rt/rwlock.rs::Locked bounded=elements:5 models=std::collections::HashSet=vecset
#[kani::proof]
#[kani::unwind(7)]
fn c07_vecset_implements_a_finite_set() {
    let mut s: HashSet<u8> = HashSet::new();
    oblige!("C07.vecset.new_is_empty", s.is_empty() && s.len() == 0);
    let (x, y, z): (u8, u8, u8) = (kani::any(), kani::any(), kani::any());
    kani::assume(x != y);
    s.insert(x);
    s.insert(y);
    s.insert(x);
    oblige!("C07.vecset.insert_is_idempotent_and_adds", s.len() == 2 && s.contains(&x) && s.contains(&y) && (s.contains(&z) == (z == x || z == y)));
    s.remove(&x);
    oblige!("C07.vecset.remove_deletes_exactly_the_element", s.len() == 1 && !s.contains(&x) && s.contains(&y) && !s.is_empty());
    s.remove(&y);
    oblige!("C07.vecset.empty_after_removing_all", s.is_empty());
    reach!("c07_vecset_implements_a_finite_set");
}

pub(crate) fn free_rwlock_state() -> State {
    State { lock: None, last_access: None, synchronize: Synchronize::new() }
}
