//! C04: contracts for `rt::cell` (race detector of UnsafeCell). Child module of `rt::cell`.
use super::*;
use crate::rt::thread::verif_kani::{active_index, any_set, assume_incrementable, set_view, th_view_eq, thread_at, SetView};
use crate::rt::vv::verif_kani::{any_vv, eq as vv_eq, is_inc, is_join, join_of, le as vv_le};
use crate::{must_not_reach, oblige, reach};
use std::mem::ManuallyDrop;

pub(crate) fn any_cell_state() -> State {
    State {
        created_location: Location::disabled(),
        is_reading: kani::any(),
        is_writing: kani::any(),
        read_access: any_vv(),
        read_locations: LocationSet::new(),
        write_access: any_vv(),
        write_locations: LocationSet::new(),
    }
}

#[derive(Clone, Copy)]
pub(crate) struct CellView {
    pub is_reading: usize,
    pub is_writing: bool,
    pub read_access: VersionVec,
    pub write_access: VersionVec,
}

pub(crate) fn cell_view(s: &State) -> CellView {
    CellView { is_reading: s.is_reading, is_writing: s.is_writing, read_access: s.read_access, write_access: s.write_access }
}

fn active_causality(set: &thread::Set) -> VersionVec {
    thread_at(set, active_index(set).unwrap()).causality
}

crate::with_fire_forbidden! {
//@ props=C04 tier=quick fns=src/rt/cell.rs::State::track_read,src/rt/cell.rs::State::track_write models=VersionVec::join=s_vv_models_agree,VersionVec::ahead=s_vv_models_agree,PanicBuilder::fire=forbidden
#[kani::proof]
#[kani::unwind(7)]
fn c04_cell_track_ordered_access_is_silent() {
    let set = any_set(3);
    let c = active_causality(&set);
    let mut st = any_cell_state();
    let old = cell_view(&st);
    if kani::any() {
        // read: the last write happens-before this read  => no report, read clock absorbs c
        kani::assume(vv_le(&old.write_access, &c));
        st.track_read(&set);
        let new = cell_view(&st);
        oblige!("C04.cell.track_read.ordered_read_updates_read_clock_exactly",
            is_join(&new.read_access, &old.read_access, &c) && vv_eq(&new.write_access, &old.write_access)
            && new.is_reading == old.is_reading && new.is_writing == old.is_writing);
    } else {
        kani::assume(vv_le(&old.write_access, &c) && vv_le(&old.read_access, &c));
        st.track_write(&set);
        let new = cell_view(&st);
        oblige!("C04.cell.track_write.ordered_write_updates_write_clock_exactly",
            is_join(&new.write_access, &old.write_access, &c) && vv_eq(&new.read_access, &old.read_access)
            && new.is_reading == old.is_reading && new.is_writing == old.is_writing);
    }
    reach!("c04_cell_track_ordered");
}
}

crate::with_fire_expected! {
//@ props=C04 tier=quick fns=src/rt/cell.rs::State::track_read models=VersionVec::ahead=s_vv_models_agree,PanicBuilder::fire=expected
#[kani::proof]
#[kani::unwind(7)]
fn c04_cell_track_read_unordered_write_is_reported() {
    let set = any_set(3);
    let c = active_causality(&set);
    let mut st = any_cell_state();
    kani::assume(!vv_le(&st.write_access, &c));
    st.track_read(&set);
    must_not_reach!("C04.cell.track_read.returns_silently_despite_unordered_write");
}
}

crate::with_fire_expected! {
//@ props=C04 tier=quick fns=src/rt/cell.rs::State::track_write models=VersionVec::ahead=s_vv_models_agree,PanicBuilder::fire=expected
#[kani::proof]
#[kani::unwind(7)]
fn c04_cell_track_write_unordered_access_is_reported() {
    let set = any_set(3);
    let c = active_causality(&set);
    let mut st = any_cell_state();
    kani::assume(!vv_le(&st.write_access, &c) || !vv_le(&st.read_access, &c));
    st.track_write(&set);
    must_not_reach!("C04.cell.track_write.returns_silently_despite_unordered_access");
}
}

//@ props=C04 tier=quick fns=src/rt/cell.rs::State::new
#[kani::proof]
#[kani::unwind(7)]
#[kani::stub(std::hash::RandomState::new, crate::rt::thread::verif_kani::fixed_random_state)]
fn c04_cell_new() {
    let set = any_set(3);
    let c = active_causality(&set);
    let st = State::new(&set, Location::disabled());
    let v = cell_view(&st);
    oblige!("C04.cell.new.creation_counts_as_write_by_creator",
        vv_eq(&v.write_access, &c) && vv_eq(&v.read_access, &c) && v.is_reading == 0 && !v.is_writing);
    reach!("c04_cell_new");
}

/// Execution with `n` threads and one cell (object 0).
fn cell_exec(n: usize) -> (ManuallyDrop<crate::rt::Execution>, Cell) {
    let set = any_set(n);
    assume_incrementable(&set);
    let st = any_cell_state();
    let mut ex = crate::rt::execution::verif_kani::exec_with(ManuallyDrop::into_inner(set), 4);
    let r = crate::rt::execution::verif_kani::objects_mut(&mut ex).insert(st);
    (ex, Cell { state: r })
}

fn cell_of(ex: &crate::rt::Execution, c: &Cell) -> CellView {
    cell_view(c.state.get(crate::rt::execution::verif_kani::objects(ex)))
}

crate::with_fire_forbidden! {
//@ props=C04 tier=quick fns=src/rt/cell.rs::Cell::start_read,src/rt/cell.rs::Cell::start_write,src/rt/cell.rs::Reading::drop,src/rt/cell.rs::Writing::drop,src/rt/mod.rs::synchronize models=VersionVec::join=s_vv_models_agree,VersionVec::ahead=s_vv_models_agree,PanicBuilder::fire=forbidden
#[kani::proof]
#[kani::unwind(7)]
fn c04_cell_guards() {
    let (mut ex, cell) = cell_exec(2);
    let a = active_index(&ex.threads).unwrap();
    let old_set = set_view(&ex.threads);
    let old = cell_of(&ex, &cell);
    let oa = old_set.th[a];
    if kani::any() {
        kani::assume(!old.is_writing && old.is_reading < usize::MAX);
        // the access is checked against the clock AFTER the tick of rt::synchronize
        let mut c1 = oa.causality;
        c1.inc(crate::rt::thread::verif_kani::id_of(&ex.threads, a));
        kani::assume(vv_le(&old.write_access, &c1));
        let g = crate::rt::scheduler::verif_kani::with_ctx(&mut ex, || cell.start_read(Location::disabled()));
        let mid = cell_of(&ex, &cell);
        let na = set_view(&ex.threads).th[a];
        oblige!("C04.cell.start_read.ticks_own_clock_only", is_inc(&na.causality, &oa.causality, a));
        oblige!("C04.cell.start_read.counts_reader_and_records_read",
            mid.is_reading == old.is_reading + 1 && !mid.is_writing && is_join(&mid.read_access, &old.read_access, &c1)
            && vv_eq(&mid.write_access, &old.write_access));
        crate::rt::scheduler::verif_kani::with_ctx(&mut ex, || drop(g));
        let new = cell_of(&ex, &cell);
        oblige!("C04.cell.reading_drop.uncounts_reader", new.is_reading == old.is_reading && !new.is_writing);
        oblige!("C04.cell.reading_drop.clocks_stable", vv_eq(&new.read_access, &mid.read_access) && vv_eq(&new.write_access, &old.write_access));
    } else {
        kani::assume(!old.is_writing && old.is_reading == 0);
        let mut c1 = oa.causality;
        c1.inc(crate::rt::thread::verif_kani::id_of(&ex.threads, a));
        kani::assume(vv_le(&old.write_access, &c1) && vv_le(&old.read_access, &c1));
        let g = crate::rt::scheduler::verif_kani::with_ctx(&mut ex, || cell.start_write(Location::disabled()));
        let mid = cell_of(&ex, &cell);
        oblige!("C04.cell.start_write.marks_writer_and_records_write",
            mid.is_writing && mid.is_reading == 0 && is_join(&mid.write_access, &old.write_access, &c1)
            && vv_eq(&mid.read_access, &old.read_access));
        crate::rt::scheduler::verif_kani::with_ctx(&mut ex, || drop(g));
        let new = cell_of(&ex, &cell);
        oblige!("C04.cell.writing_drop.unmarks_writer", !new.is_writing && new.is_reading == 0);
        oblige!("C04.cell.writing_drop.clocks_stable", vv_eq(&new.write_access, &mid.write_access) && vv_eq(&new.read_access, &old.read_access));
    }
    // frame: the other thread is untouched
    let other = 1 - a;
    let (oo, no) = (old_set.th[other], set_view(&ex.threads).th[other]);
    oblige!("C04.cell.guards.other_thread_untouched", th_view_eq(&oo, &no));
    reach!("c04_cell_guards");
}
}
