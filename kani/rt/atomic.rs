//! Contracts for `rt::atomic` (child module of `rt::atomic`).
use super::*;
use crate::{must_not_reach, oblige, reach};

// ================================================================================================
// C12: the sequential-cell contract model of `rt::Atomic<T>` used by the wrapper-layer harnesses.
// One atomic per harness: a ghost u64 cell.  Justified by the C12.cell.* harnesses below, which
// prove that the real rt::Atomic<T> operations refine exactly this model in a one-thread execution.
// ================================================================================================

pub(crate) static mut CELL: u64 = 0;
pub(crate) static mut CELL_MUTATING: bool = false;

pub(crate) fn cell() -> u64 {
    unsafe { CELL }
}

impl<T: Numeric> Atomic<T> {
    pub(crate) fn new_model(value: T, _location: Location) -> Atomic<T> {
        unsafe {
            CELL = value.into_u64();
            CELL_MUTATING = false;
        }
        Atomic { state: object::Ref::from_usize(0).downcast_unchecked(), _p: PhantomData }
    }

    pub(crate) fn load_model(&self, _location: Location, _ordering: Ordering) -> T {
        assert!(!unsafe { CELL_MUTATING });
        T::from_u64(unsafe { CELL })
    }

    pub(crate) fn unsync_load_model(&self, _location: Location) -> T {
        assert!(!unsafe { CELL_MUTATING });
        T::from_u64(unsafe { CELL })
    }

    pub(crate) fn store_model(&self, _location: Location, val: T, _ordering: Ordering) {
        assert!(!unsafe { CELL_MUTATING });
        unsafe {
            CELL = val.into_u64();
        }
    }

    pub(crate) fn rmw_model<F, E>(&self, _l: Location, _success: Ordering, _failure: Ordering, f: F) -> Result<T, E>
    where
        F: FnOnce(T) -> Result<T, E>,
    {
        assert!(!unsafe { CELL_MUTATING });
        let prev = unsafe { CELL };
        match f(T::from_u64(prev)) {
            Ok(next) => {
                unsafe {
                    CELL = next.into_u64();
                }
                Ok(T::from_u64(prev))
            }
            Err(e) => Err(e),
        }
    }

    pub(crate) fn with_mut_model<R>(&mut self, _location: Location, f: impl FnOnce(&mut T) -> R) -> R {
        assert!(!unsafe { CELL_MUTATING });
        unsafe {
            CELL_MUTATING = true;
        }
        let mut v = T::from_u64(unsafe { CELL });
        let r = f(&mut v);
        unsafe {
            CELL = v.into_u64();
            CELL_MUTATING = false;
        }
        r
    }
}

// ================================================================================================
// Views, generators and validity predicates for `atomic::State`
// ================================================================================================
use crate::rt::synchronize::verif_kani::{any_order, any_sync, hb as sync_hb, sync_with};
use crate::rt::thread::verif_kani::{any_set, set_view, th_view_eq, thread_at, wf_set, SetView};
use crate::rt::vv::verif_kani::{any_vv, eq as vv_eq, get as vv_get, is_join, join_of, le as vv_le, zero_vv};
use std::mem::ManuallyDrop;

pub(crate) const H: usize = MAX_ATOMIC_HISTORY;

#[derive(Clone, Copy)]
pub(crate) struct StoreView {
    pub value: u64,
    pub hb: VersionVec,
    pub mo: VersionVec,
    pub sync: VersionVec,
    pub first_seen: [u16; MAX_THREADS],
    pub seq_cst: bool,
}

#[derive(Clone, Copy)]
pub(crate) struct AtomicView {
    pub cnt: u16,
    pub stores: [StoreView; H],
    pub loaded_at: VersionVec,
    pub unsync_loaded_at: VersionVec,
    pub stored_at: VersionVec,
    pub unsync_mut_at: VersionVec,
    pub is_mutating: bool,
}

pub(crate) fn store_view(s: &Store) -> StoreView {
    StoreView {
        value: s.value,
        hb: s.happens_before,
        mo: s.modification_order,
        sync: sync_hb(&s.sync),
        first_seen: s.first_seen.0,
        seq_cst: s.seq_cst,
    }
}

pub(crate) fn atomic_view(s: &State) -> AtomicView {
    let z = store_view(&s.stores[0]);
    let mut stores = [z; H];
    let mut i = 0;
    while i < H {
        stores[i] = store_view(&s.stores[i]);
        i += 1;
    }
    AtomicView {
        cnt: s.cnt,
        stores,
        loaded_at: s.loaded_at,
        unsync_loaded_at: s.unsync_loaded_at,
        stored_at: s.stored_at,
        unsync_mut_at: s.unsync_mut_at,
        is_mutating: s.is_mutating,
    }
}

pub(crate) fn store_view_eq(a: &StoreView, b: &StoreView) -> bool {
    let mut fs = true;
    let mut i = 0;
    while i < MAX_THREADS {
        if a.first_seen[i] != b.first_seen[i] {
            fs = false;
        }
        i += 1;
    }
    fs && a.value == b.value && vv_eq(&a.hb, &b.hb) && vv_eq(&a.mo, &b.mo) && vv_eq(&a.sync, &b.sync) && a.seq_cst == b.seq_cst
}

pub(crate) fn any_store() -> Store {
    Store {
        value: kani::any(),
        happens_before: any_vv(),
        modification_order: any_vv(),
        sync: any_sync(),
        first_seen: FirstSeen(kani::any()),
        seq_cst: kani::any(),
    }
}

/// Fully symbolic atomic state (ring content, counters, race clocks). `is_mutating` false,
/// no DPOR accesses recorded (harnesses that need them set them).
pub(crate) fn any_atomic_state() -> State {
    State {
        created_location: Location::disabled(),
        loaded_at: any_vv(),
        loaded_locations: LocationSet::new(),
        unsync_loaded_at: any_vv(),
        unsync_loaded_locations: LocationSet::new(),
        stored_at: any_vv(),
        stored_locations: LocationSet::new(),
        unsync_mut_at: any_vv(),
        unsync_mut_locations: LocationSet::new(),
        is_mutating: false,
        last_access: None,
        last_non_load_access: None,
        stores: [any_store(), any_store(), any_store(), any_store(), any_store(), any_store(), any_store()],
        cnt: kani::any(),
    }
}

/// Slot `i` holds a real store.
pub(crate) fn live(cnt: u16, i: usize) -> bool {
    i < H && (i as u16) < cnt
}

pub(crate) fn newest(cnt: u16) -> usize {
    (cnt.wrapping_sub(1)) as usize % H
}

/// Rank of live slot `i` from the oldest live store (0) to the newest.
pub(crate) fn age_rank(cnt: u16, i: usize) -> usize {
    let oldest = if (cnt as usize) >= H { (cnt as usize) % H } else { 0 };
    (i + H - oldest) % H
}

pub(crate) fn vv_lt(a: &VersionVec, b: &VersionVec) -> bool {
    vv_le(a, b) && !vv_eq(a, b)
}

/// `wf_single`: the invariant of an atomic that only thread 0 of a one-thread execution has ever
/// touched (C12.seq).  `c` is thread 0's causality.
pub(crate) fn wf_single(v: &AtomicView, c: &VersionVec) -> bool {
    let mut ok = v.cnt >= 1 && !v.is_mutating;
    ok = ok && vv_le(&v.loaded_at, c) && vv_le(&v.unsync_loaded_at, c) && vv_le(&v.stored_at, c) && vv_le(&v.unsync_mut_at, c);
    let mut i = 0;
    while i < H {
        if live(v.cnt, i) {
            // every store is in thread 0's past and has been seen by thread 0
            ok = ok && vv_le(&v.stores[i].mo, c) && vv_le(&v.stores[i].hb, c) && vv_le(&v.stores[i].sync, c) && v.stores[i].first_seen[0] != u16::MAX && v.stores[i].first_seen[0] <= vv_get(c, 0);
            let mut j = 0;
            while j < H {
                if live(v.cnt, j) && age_rank(v.cnt, i) < age_rank(v.cnt, j) {
                    // modification order follows program order, strictly
                    ok = ok && vv_lt(&v.stores[i].mo, &v.stores[j].mo);
                }
                j += 1;
            }
        } else {
            ok = ok && slot_is_default(&v.stores[i]);
        }
        i += 1;
    }
    ok
}

/// A ring slot that has never held a store is as `Store::default()` left it: never seen by
/// anyone, zero clocks (so the coherence joins over *all* slots are no-ops for it).
pub(crate) fn slot_is_default(s: &StoreView) -> bool {
    let mut ok = vv_eq(&s.mo, &zero_vv()) && vv_eq(&s.hb, &zero_vv()) && vv_eq(&s.sync, &zero_vv()) && !s.seq_cst && s.value == 0;
    let mut t = 0;
    while t < MAX_THREADS {
        ok = ok && s.first_seen[t] == u16::MAX;
        t += 1;
    }
    ok
}

/// "The clock has ticked since the last operation" (established by `rt::synchronize`).
pub(crate) fn ticked(v: &AtomicView, c: &VersionVec) -> bool {
    let mut ok = true;
    let mut i = 0;
    while i < H {
        if live(v.cnt, i) {
            ok = ok && vv_get(&v.stores[i].mo, 0) < vv_get(c, 0);
        }
        i += 1;
    }
    ok
}

pub(crate) fn values_unchanged(a: &AtomicView, b: &AtomicView) -> bool {
    let mut ok = true;
    let mut i = 0;
    while i < H {
        if a.stores[i].value != b.stores[i].value {
            ok = false;
        }
        i += 1;
    }
    ok
}

// ================================================================================================
// C12.cell: in a one-thread execution rt::atomic::State is a sequential cell
//
// The ring phase is fixed per harness instance so that the structure of `wf_single` is concrete:
//   * partial instances:  cnt = K concrete (1..=6): slots 0..K-1 live, newest = K-1
//   * wrapped instances:  cnt symbolic with cnt >= 7 and cnt % 7 == K (K = 0..=6): all slots live,
//                         oldest slot = K, newest = (K+6) % 7
// Together the 13 instances cover every cnt in 1..u16::MAX (complete, no bound on the number of
// operations performed so far).
// ================================================================================================

/// cnt for an instance: `full == false` => exactly `k`; `full == true` => any cnt >= 7 with cnt % 7 == k.
pub(crate) fn cnt_for(k: usize, full: bool) -> u16 {
    if full {
        let c: u16 = kani::any();
        kani::assume(c >= H as u16 && (c as usize) % H == k);
        c
    } else {
        k as u16
    }
}

pub(crate) fn newest_for(k: usize) -> usize {
    (k + H - 1) % H
}

/// `wf_single` with the ring phase given concretely (equivalent to `wf_single` when
/// `cnt == cnt_for(k, full)`; the equivalence is itself obliged in `c12_cell_wf_forms_agree_*`).
pub(crate) fn wf_single_k(v: &AtomicView, c: &VersionVec, k: usize, full: bool) -> bool {
    let mut ok = !v.is_mutating;
    ok = ok && vv_le(&v.loaded_at, c) && vv_le(&v.unsync_loaded_at, c) && vv_le(&v.stored_at, c) && vv_le(&v.unsync_mut_at, c);
    let oldest = if full { k } else { 0 };
    let nlive = if full { H } else { k };
    let mut i = 0;
    while i < H {
        let ri = (i + H - oldest) % H;
        if ri < nlive {
            ok = ok && vv_le(&v.stores[i].mo, c) && vv_le(&v.stores[i].hb, c) && vv_le(&v.stores[i].sync, c)
                && v.stores[i].first_seen[0] != u16::MAX && v.stores[i].first_seen[0] <= vv_get(c, 0);
            let mut j = 0;
            while j < H {
                let rj = (j + H - oldest) % H;
                if rj < nlive && ri < rj {
                    ok = ok && vv_lt(&v.stores[i].mo, &v.stores[j].mo);
                }
                j += 1;
            }
        } else {
            ok = ok && slot_is_default(&v.stores[i]);
        }
        i += 1;
    }
    ok
}

pub(crate) fn ticked_k(v: &AtomicView, c: &VersionVec, k: usize, full: bool) -> bool {
    let mut ok = true;
    let mut i = 0;
    while i < H {
        if full || i < k {
            ok = ok && vv_get(&v.stores[i].mo, 0) < vv_get(c, 0);
        }
        i += 1;
    }
    ok
}

crate::with_fire_forbidden! {
//@ props=C12,C03 tier=quick fns=src/rt/atomic.rs::State::new,src/rt/atomic.rs::State::store,src/rt/atomic.rs::State::track_unsync_mut models=VersionVec::join=s_vv_models_agree,VersionVec::ahead=s_vv_models_agree,FirstSeen::is_seen_by_current=s_firstseen
#[kani::proof]
#[kani::unwind(9)]
fn c12_cell_state_new() {
    let mut set = any_set(1);
    crate::rt::thread::verif_kani::assume_incrementable(&set);
    kani::assume(crate::rt::thread::verif_kani::wf_thread_clocks(&set));
    let v: u64 = kani::any();
    let old = set_view(&set);
    let st = State::new(&mut set, v, Location::disabled());
    let av = atomic_view(&st);
    oblige!("C12.cell.new.one_store_holding_value", av.cnt == 1 && av.stores[0].value == v);
    oblige!("C12.cell.new.establishes_wf_single", wf_single_k(&av, &old.th[0].causality, 1, false));
    let new = set_view(&set);
    oblige!("C12.cell.new.thread_unchanged", th_view_eq(&old.th[0], &new.th[0]));
    reach!("c12_cell_state_new");
}
}

/// `State::load` / `State::rmw` take the ring index as an argument; it is kept path-concrete
/// (CBMC 6.11 mis-resolves `&arr[sym].field`, DESIGN §9): one call site per slot.
fn load_at(st: &mut State, set: &mut thread::Set, idx: usize, o: Ordering) -> u64 {
    match idx {
        0 => st.load(set, 0, Location::disabled(), o),
        1 => st.load(set, 1, Location::disabled(), o),
        2 => st.load(set, 2, Location::disabled(), o),
        3 => st.load(set, 3, Location::disabled(), o),
        4 => st.load(set, 4, Location::disabled(), o),
        5 => st.load(set, 5, Location::disabled(), o),
        _ => st.load(set, 6, Location::disabled(), o),
    }
}

fn rmw_at<E>(st: &mut State, set: &mut thread::Set, idx: usize, s: Ordering, f: Ordering, g: impl FnOnce(u64) -> Result<u64, E>) -> Result<u64, E> {
    let l = Location::disabled();
    match idx {
        0 => st.rmw(set, 0, l, s, f, g),
        1 => st.rmw(set, 1, l, s, f, g),
        2 => st.rmw(set, 2, l, s, f, g),
        3 => st.rmw(set, 3, l, s, f, g),
        4 => st.rmw(set, 4, l, s, f, g),
        5 => st.rmw(set, 5, l, s, f, g),
        _ => st.rmw(set, 6, l, s, f, g),
    }
}

macro_rules! c12_cell_instances {
    ($store:ident, $load:ident, $rmw:ident, $matchh:ident, $k:expr, $full:expr) => {
        crate::with_fire_forbidden! {
        #[kani::proof]
        #[kani::unwind(12)]
        fn $store() {
            let mut set = any_set(1);
            crate::rt::thread::verif_kani::assume_incrementable(&set);
            kani::assume(crate::rt::thread::verif_kani::wf_thread_clocks(&set));
    kani::assume(crate::rt::thread::verif_kani::wf_thread_clocks(&set));
            let mut st = any_atomic_state();
            st.cnt = cnt_for($k, $full);
            let c = thread_at(&set, 0).causality;
            let old = atomic_view(&st);
            kani::assume(wf_single_k(&old, &c, $k, $full) && ticked_k(&old, &c, $k, $full) && old.cnt < u16::MAX);
            let v: u64 = kani::any();
            let o = any_order();
            st.store(&mut set, Synchronize::new(), v, o);
            let new = atomic_view(&st);
            let slot = $k % H;
            oblige!("C12.cell.store.count_plus_one", new.cnt == old.cnt + 1);
            oblige!("C12.cell.store.writes_value_in_next_slot", new.stores[slot].value == v);
            let mut i = 0;
            while i < H {
                oblige!("C12.cell.store.other_slots_untouched", i == slot || store_view_eq(&old.stores[i], &new.stores[i]));
                i += 1;
            }
            // phase after the store: (k+1, still partial) / (7 => wrapped with k' = 0) / wrapped k' = k+1
            let (k2, full2) = if $full { (($k + 1) % H, true) } else if $k + 1 == H { (0, true) } else { ($k + 1, false) };
            oblige!("C12.cell.store.preserves_wf_single", wf_single_k(&new, &c, k2, full2));
            oblige!("C12.cell.store.thread_clock_unchanged", vv_eq(&thread_at(&set, 0).causality, &c));
            reach!("c12_cell_state_store");
        }
        }

        crate::with_fire_forbidden! {
        #[kani::proof]
        #[kani::unwind(12)]
        fn $load() {
            let mut set = any_set(1);
            crate::rt::thread::verif_kani::assume_incrementable(&set);
            kani::assume(crate::rt::thread::verif_kani::wf_thread_clocks(&set));
    kani::assume(crate::rt::thread::verif_kani::wf_thread_clocks(&set));
            let mut st = any_atomic_state();
            st.cnt = cnt_for($k, $full);
            let c = thread_at(&set, 0).causality;
            let old = atomic_view(&st);
            kani::assume(wf_single_k(&old, &c, $k, $full) && ticked_k(&old, &c, $k, $full));
            let n = newest_for($k);
            let o = any_order();
            let r = load_at(&mut st, &mut set, n, o);
            let new = atomic_view(&st);
            let c2 = thread_at(&set, 0).causality;
            oblige!("C12.cell.load.returns_newest_value", r == old.stores[n].value);
            oblige!("C12.cell.load.content_unchanged", new.cnt == old.cnt && values_unchanged(&old, &new));
            oblige!("C12.cell.load.preserves_wf_single", wf_single_k(&new, &c2, $k, $full));
            oblige!("C12.cell.load.still_ticked", ticked_k(&new, &c2, $k, $full));
            reach!("c12_cell_state_load");
        }
        }

        crate::with_fire_forbidden! {
        #[kani::proof]
        #[kani::unwind(12)]
        fn $rmw() {
            let mut set = any_set(1);
            crate::rt::thread::verif_kani::assume_incrementable(&set);
            kani::assume(crate::rt::thread::verif_kani::wf_thread_clocks(&set));
    kani::assume(crate::rt::thread::verif_kani::wf_thread_clocks(&set));
            let mut st = any_atomic_state();
            st.cnt = cnt_for($k, $full);
            let c = thread_at(&set, 0).causality;
            let old = atomic_view(&st);
            kani::assume(wf_single_k(&old, &c, $k, $full) && ticked_k(&old, &c, $k, $full) && old.cnt < u16::MAX);
            let n = newest_for($k);
            let so = any_order();
            let fo = any_order();
            let next: u64 = kani::any();
            let fail: bool = kani::any();
            let mut seen_by_f: u64 = 0;
            let r = rmw_at(&mut st, &mut set, n, so, fo, |p| {
                seen_by_f = p;
                if fail { Err(p) } else { Ok(next) }
            });
            let new = atomic_view(&st);
            let c2 = thread_at(&set, 0).causality;
            oblige!("C12.cell.rmw.closure_sees_newest_value", seen_by_f == old.stores[n].value);
            if fail {
                oblige!("C12.cell.rmw.err_passes_through_and_stores_nothing",
                    r == Err(old.stores[n].value) && new.cnt == old.cnt && values_unchanged(&old, &new));
                oblige!("C12.cell.rmw.preserves_wf_single", wf_single_k(&new, &c2, $k, $full));
            } else {
                let slot = $k % H;
                let (k2, full2) = if $full { (($k + 1) % H, true) } else if $k + 1 == H { (0, true) } else { ($k + 1, false) };
                oblige!("C12.cell.rmw.ok_returns_previous_value", r == Ok(old.stores[n].value));
                oblige!("C12.cell.rmw.ok_appends_new_value", new.cnt == old.cnt + 1 && new.stores[slot].value == next);
                oblige!("C12.cell.rmw.preserves_wf_single", wf_single_k(&new, &c2, k2, full2));
            }
            reach!("c12_cell_state_rmw");
        }
        }

        #[kani::proof]
        #[kani::unwind(12)]
        #[kani::stub(std::hash::RandomState::new, crate::rt::thread::verif_kani::fixed_random_state)]
        #[kani::stub(crate::rt::atomic::FirstSeen::is_seen_by_current, crate::rt::atomic::FirstSeen::is_seen_by_current_model)]
        fn $matchh() {
            let set = any_set(1);
            crate::rt::thread::verif_kani::assume_incrementable(&set);
            kani::assume(crate::rt::thread::verif_kani::wf_thread_clocks(&set));
    kani::assume(crate::rt::thread::verif_kani::wf_thread_clocks(&set));
            let mut st = any_atomic_state();
            st.cnt = cnt_for($k, $full);
            let c = thread_at(&set, 0).causality;
            let v = atomic_view(&st);
            kani::assume(wf_single_k(&v, &c, $k, $full));
            oblige!("C12.seq.newest_slot_is_index_of_cnt_minus_1", index(st.cnt - 1) == newest_for($k));
            let o = any_order();
            let mut seed = [0u8; H];
            let n = st.match_load_to_stores(&set, &mut seed[..], o);
            oblige!("C12.seq.load_candidates_are_exactly_the_newest_store", n == 1 && seed[0] as usize == newest_for($k));
            let mut seed2 = [0u8; H];
            let n2 = st.match_rmw_to_stores(&mut seed2[..]);
            oblige!("C12.seq.rmw_candidates_are_exactly_the_newest_store", n2 == 1 && seed2[0] as usize == newest_for($k));
            reach!("c12_cell_match_single");
        }
    };
}

//@ name=c12_cell_store_p1 props=C12,C03 tier=quick fns=src/rt/atomic.rs::State::store,src/rt/atomic.rs::index models=VersionVec::join=s_vv_models_agree,VersionVec::ahead=s_vv_models_agree,FirstSeen::is_seen_by_current=s_firstseen
//@ name=c12_cell_load_p1 props=C12,C03 tier=quick fns=src/rt/atomic.rs::State::load,src/rt/atomic.rs::State::apply_load_coherence,src/rt/atomic.rs::State::track_load models=VersionVec::join=s_vv_models_agree,VersionVec::ahead=s_vv_models_agree,FirstSeen::is_seen_by_current=s_firstseen
//@ name=c12_cell_rmw_p1 props=C12,C03 tier=quick fns=src/rt/atomic.rs::State::rmw,src/rt/atomic.rs::State::track_store models=VersionVec::join=s_vv_models_agree,VersionVec::ahead=s_vv_models_agree,FirstSeen::is_seen_by_current=s_firstseen
//@ name=c12_cell_match_p1 props=C12,C03 tier=quick fns=src/rt/atomic.rs::State::match_load_to_stores,src/rt/atomic.rs::State::match_rmw_to_stores models=VersionVec::join=s_vv_models_agree,VersionVec::ahead=s_vv_models_agree,FirstSeen::is_seen_by_current=s_firstseen
c12_cell_instances!(c12_cell_store_p1, c12_cell_load_p1, c12_cell_rmw_p1, c12_cell_match_p1, 1, false);
//@ name=c12_cell_store_p2 props=C12,C03 tier=thorough fns=src/rt/atomic.rs::State::store,src/rt/atomic.rs::index models=VersionVec::join=s_vv_models_agree,VersionVec::ahead=s_vv_models_agree,FirstSeen::is_seen_by_current=s_firstseen
//@ name=c12_cell_load_p2 props=C12,C03 tier=thorough fns=src/rt/atomic.rs::State::load,src/rt/atomic.rs::State::apply_load_coherence,src/rt/atomic.rs::State::track_load models=VersionVec::join=s_vv_models_agree,VersionVec::ahead=s_vv_models_agree,FirstSeen::is_seen_by_current=s_firstseen
//@ name=c12_cell_rmw_p2 props=C12,C03 tier=thorough fns=src/rt/atomic.rs::State::rmw,src/rt/atomic.rs::State::track_store models=VersionVec::join=s_vv_models_agree,VersionVec::ahead=s_vv_models_agree,FirstSeen::is_seen_by_current=s_firstseen
//@ name=c12_cell_match_p2 props=C12,C03 tier=thorough fns=src/rt/atomic.rs::State::match_load_to_stores,src/rt/atomic.rs::State::match_rmw_to_stores models=VersionVec::join=s_vv_models_agree,VersionVec::ahead=s_vv_models_agree,FirstSeen::is_seen_by_current=s_firstseen
c12_cell_instances!(c12_cell_store_p2, c12_cell_load_p2, c12_cell_rmw_p2, c12_cell_match_p2, 2, false);
//@ name=c12_cell_store_p3 props=C12,C03 tier=quick fns=src/rt/atomic.rs::State::store,src/rt/atomic.rs::index models=VersionVec::join=s_vv_models_agree,VersionVec::ahead=s_vv_models_agree,FirstSeen::is_seen_by_current=s_firstseen
//@ name=c12_cell_load_p3 props=C12,C03 tier=quick fns=src/rt/atomic.rs::State::load,src/rt/atomic.rs::State::apply_load_coherence,src/rt/atomic.rs::State::track_load models=VersionVec::join=s_vv_models_agree,VersionVec::ahead=s_vv_models_agree,FirstSeen::is_seen_by_current=s_firstseen
//@ name=c12_cell_rmw_p3 props=C12,C03 tier=quick fns=src/rt/atomic.rs::State::rmw,src/rt/atomic.rs::State::track_store models=VersionVec::join=s_vv_models_agree,VersionVec::ahead=s_vv_models_agree,FirstSeen::is_seen_by_current=s_firstseen
//@ name=c12_cell_match_p3 props=C12,C03 tier=quick fns=src/rt/atomic.rs::State::match_load_to_stores,src/rt/atomic.rs::State::match_rmw_to_stores models=VersionVec::join=s_vv_models_agree,VersionVec::ahead=s_vv_models_agree,FirstSeen::is_seen_by_current=s_firstseen
c12_cell_instances!(c12_cell_store_p3, c12_cell_load_p3, c12_cell_rmw_p3, c12_cell_match_p3, 3, false);
//@ name=c12_cell_store_p4 props=C12,C03 tier=thorough fns=src/rt/atomic.rs::State::store,src/rt/atomic.rs::index models=VersionVec::join=s_vv_models_agree,VersionVec::ahead=s_vv_models_agree,FirstSeen::is_seen_by_current=s_firstseen
//@ name=c12_cell_load_p4 props=C12,C03 tier=thorough fns=src/rt/atomic.rs::State::load,src/rt/atomic.rs::State::apply_load_coherence,src/rt/atomic.rs::State::track_load models=VersionVec::join=s_vv_models_agree,VersionVec::ahead=s_vv_models_agree,FirstSeen::is_seen_by_current=s_firstseen
//@ name=c12_cell_rmw_p4 props=C12,C03 tier=thorough fns=src/rt/atomic.rs::State::rmw,src/rt/atomic.rs::State::track_store models=VersionVec::join=s_vv_models_agree,VersionVec::ahead=s_vv_models_agree,FirstSeen::is_seen_by_current=s_firstseen
//@ name=c12_cell_match_p4 props=C12,C03 tier=thorough fns=src/rt/atomic.rs::State::match_load_to_stores,src/rt/atomic.rs::State::match_rmw_to_stores models=VersionVec::join=s_vv_models_agree,VersionVec::ahead=s_vv_models_agree,FirstSeen::is_seen_by_current=s_firstseen
c12_cell_instances!(c12_cell_store_p4, c12_cell_load_p4, c12_cell_rmw_p4, c12_cell_match_p4, 4, false);
//@ name=c12_cell_store_p5 props=C12,C03 tier=thorough fns=src/rt/atomic.rs::State::store,src/rt/atomic.rs::index models=VersionVec::join=s_vv_models_agree,VersionVec::ahead=s_vv_models_agree,FirstSeen::is_seen_by_current=s_firstseen
//@ name=c12_cell_load_p5 props=C12,C03 tier=thorough fns=src/rt/atomic.rs::State::load,src/rt/atomic.rs::State::apply_load_coherence,src/rt/atomic.rs::State::track_load models=VersionVec::join=s_vv_models_agree,VersionVec::ahead=s_vv_models_agree,FirstSeen::is_seen_by_current=s_firstseen
//@ name=c12_cell_rmw_p5 props=C12,C03 tier=thorough fns=src/rt/atomic.rs::State::rmw,src/rt/atomic.rs::State::track_store models=VersionVec::join=s_vv_models_agree,VersionVec::ahead=s_vv_models_agree,FirstSeen::is_seen_by_current=s_firstseen
//@ name=c12_cell_match_p5 props=C12,C03 tier=thorough fns=src/rt/atomic.rs::State::match_load_to_stores,src/rt/atomic.rs::State::match_rmw_to_stores models=VersionVec::join=s_vv_models_agree,VersionVec::ahead=s_vv_models_agree,FirstSeen::is_seen_by_current=s_firstseen
c12_cell_instances!(c12_cell_store_p5, c12_cell_load_p5, c12_cell_rmw_p5, c12_cell_match_p5, 5, false);
//@ name=c12_cell_store_p6 props=C12,C03 tier=quick fns=src/rt/atomic.rs::State::store,src/rt/atomic.rs::index models=VersionVec::join=s_vv_models_agree,VersionVec::ahead=s_vv_models_agree,FirstSeen::is_seen_by_current=s_firstseen
//@ name=c12_cell_load_p6 props=C12,C03 tier=quick fns=src/rt/atomic.rs::State::load,src/rt/atomic.rs::State::apply_load_coherence,src/rt/atomic.rs::State::track_load models=VersionVec::join=s_vv_models_agree,VersionVec::ahead=s_vv_models_agree,FirstSeen::is_seen_by_current=s_firstseen
//@ name=c12_cell_rmw_p6 props=C12,C03 tier=quick fns=src/rt/atomic.rs::State::rmw,src/rt/atomic.rs::State::track_store models=VersionVec::join=s_vv_models_agree,VersionVec::ahead=s_vv_models_agree,FirstSeen::is_seen_by_current=s_firstseen
//@ name=c12_cell_match_p6 props=C12,C03 tier=quick fns=src/rt/atomic.rs::State::match_load_to_stores,src/rt/atomic.rs::State::match_rmw_to_stores models=VersionVec::join=s_vv_models_agree,VersionVec::ahead=s_vv_models_agree,FirstSeen::is_seen_by_current=s_firstseen
c12_cell_instances!(c12_cell_store_p6, c12_cell_load_p6, c12_cell_rmw_p6, c12_cell_match_p6, 6, false);
//@ name=c12_cell_store_w0 props=C12,C03 tier=quick fns=src/rt/atomic.rs::State::store,src/rt/atomic.rs::index models=VersionVec::join=s_vv_models_agree,VersionVec::ahead=s_vv_models_agree,FirstSeen::is_seen_by_current=s_firstseen
//@ name=c12_cell_load_w0 props=C12,C03 tier=quick fns=src/rt/atomic.rs::State::load,src/rt/atomic.rs::State::apply_load_coherence,src/rt/atomic.rs::State::track_load models=VersionVec::join=s_vv_models_agree,VersionVec::ahead=s_vv_models_agree,FirstSeen::is_seen_by_current=s_firstseen
//@ name=c12_cell_rmw_w0 props=C12,C03 tier=quick fns=src/rt/atomic.rs::State::rmw,src/rt/atomic.rs::State::track_store models=VersionVec::join=s_vv_models_agree,VersionVec::ahead=s_vv_models_agree,FirstSeen::is_seen_by_current=s_firstseen
//@ name=c12_cell_match_w0 props=C12,C03 tier=quick fns=src/rt/atomic.rs::State::match_load_to_stores,src/rt/atomic.rs::State::match_rmw_to_stores models=VersionVec::join=s_vv_models_agree,VersionVec::ahead=s_vv_models_agree,FirstSeen::is_seen_by_current=s_firstseen
c12_cell_instances!(c12_cell_store_w0, c12_cell_load_w0, c12_cell_rmw_w0, c12_cell_match_w0, 0, true);
//@ name=c12_cell_store_w1 props=C12,C03 tier=thorough fns=src/rt/atomic.rs::State::store,src/rt/atomic.rs::index models=VersionVec::join=s_vv_models_agree,VersionVec::ahead=s_vv_models_agree,FirstSeen::is_seen_by_current=s_firstseen
//@ name=c12_cell_load_w1 props=C12,C03 tier=thorough fns=src/rt/atomic.rs::State::load,src/rt/atomic.rs::State::apply_load_coherence,src/rt/atomic.rs::State::track_load models=VersionVec::join=s_vv_models_agree,VersionVec::ahead=s_vv_models_agree,FirstSeen::is_seen_by_current=s_firstseen
//@ name=c12_cell_rmw_w1 props=C12,C03 tier=thorough fns=src/rt/atomic.rs::State::rmw,src/rt/atomic.rs::State::track_store models=VersionVec::join=s_vv_models_agree,VersionVec::ahead=s_vv_models_agree,FirstSeen::is_seen_by_current=s_firstseen
//@ name=c12_cell_match_w1 props=C12,C03 tier=thorough fns=src/rt/atomic.rs::State::match_load_to_stores,src/rt/atomic.rs::State::match_rmw_to_stores models=VersionVec::join=s_vv_models_agree,VersionVec::ahead=s_vv_models_agree,FirstSeen::is_seen_by_current=s_firstseen
c12_cell_instances!(c12_cell_store_w1, c12_cell_load_w1, c12_cell_rmw_w1, c12_cell_match_w1, 1, true);
//@ name=c12_cell_store_w2 props=C12,C03 tier=thorough fns=src/rt/atomic.rs::State::store,src/rt/atomic.rs::index models=VersionVec::join=s_vv_models_agree,VersionVec::ahead=s_vv_models_agree,FirstSeen::is_seen_by_current=s_firstseen
//@ name=c12_cell_load_w2 props=C12,C03 tier=thorough fns=src/rt/atomic.rs::State::load,src/rt/atomic.rs::State::apply_load_coherence,src/rt/atomic.rs::State::track_load models=VersionVec::join=s_vv_models_agree,VersionVec::ahead=s_vv_models_agree,FirstSeen::is_seen_by_current=s_firstseen
//@ name=c12_cell_rmw_w2 props=C12,C03 tier=thorough fns=src/rt/atomic.rs::State::rmw,src/rt/atomic.rs::State::track_store models=VersionVec::join=s_vv_models_agree,VersionVec::ahead=s_vv_models_agree,FirstSeen::is_seen_by_current=s_firstseen
//@ name=c12_cell_match_w2 props=C12,C03 tier=thorough fns=src/rt/atomic.rs::State::match_load_to_stores,src/rt/atomic.rs::State::match_rmw_to_stores models=VersionVec::join=s_vv_models_agree,VersionVec::ahead=s_vv_models_agree,FirstSeen::is_seen_by_current=s_firstseen
c12_cell_instances!(c12_cell_store_w2, c12_cell_load_w2, c12_cell_rmw_w2, c12_cell_match_w2, 2, true);
//@ name=c12_cell_store_w3 props=C12,C03 tier=thorough fns=src/rt/atomic.rs::State::store,src/rt/atomic.rs::index models=VersionVec::join=s_vv_models_agree,VersionVec::ahead=s_vv_models_agree,FirstSeen::is_seen_by_current=s_firstseen
//@ name=c12_cell_load_w3 props=C12,C03 tier=thorough fns=src/rt/atomic.rs::State::load,src/rt/atomic.rs::State::apply_load_coherence,src/rt/atomic.rs::State::track_load models=VersionVec::join=s_vv_models_agree,VersionVec::ahead=s_vv_models_agree,FirstSeen::is_seen_by_current=s_firstseen
//@ name=c12_cell_rmw_w3 props=C12,C03 tier=thorough fns=src/rt/atomic.rs::State::rmw,src/rt/atomic.rs::State::track_store models=VersionVec::join=s_vv_models_agree,VersionVec::ahead=s_vv_models_agree,FirstSeen::is_seen_by_current=s_firstseen
//@ name=c12_cell_match_w3 props=C12,C03 tier=thorough fns=src/rt/atomic.rs::State::match_load_to_stores,src/rt/atomic.rs::State::match_rmw_to_stores models=VersionVec::join=s_vv_models_agree,VersionVec::ahead=s_vv_models_agree,FirstSeen::is_seen_by_current=s_firstseen
c12_cell_instances!(c12_cell_store_w3, c12_cell_load_w3, c12_cell_rmw_w3, c12_cell_match_w3, 3, true);
//@ name=c12_cell_store_w4 props=C12,C03 tier=quick fns=src/rt/atomic.rs::State::store,src/rt/atomic.rs::index models=VersionVec::join=s_vv_models_agree,VersionVec::ahead=s_vv_models_agree,FirstSeen::is_seen_by_current=s_firstseen
//@ name=c12_cell_load_w4 props=C12,C03 tier=quick fns=src/rt/atomic.rs::State::load,src/rt/atomic.rs::State::apply_load_coherence,src/rt/atomic.rs::State::track_load models=VersionVec::join=s_vv_models_agree,VersionVec::ahead=s_vv_models_agree,FirstSeen::is_seen_by_current=s_firstseen
//@ name=c12_cell_rmw_w4 props=C12,C03 tier=quick fns=src/rt/atomic.rs::State::rmw,src/rt/atomic.rs::State::track_store models=VersionVec::join=s_vv_models_agree,VersionVec::ahead=s_vv_models_agree,FirstSeen::is_seen_by_current=s_firstseen
//@ name=c12_cell_match_w4 props=C12,C03 tier=quick fns=src/rt/atomic.rs::State::match_load_to_stores,src/rt/atomic.rs::State::match_rmw_to_stores models=VersionVec::join=s_vv_models_agree,VersionVec::ahead=s_vv_models_agree,FirstSeen::is_seen_by_current=s_firstseen
c12_cell_instances!(c12_cell_store_w4, c12_cell_load_w4, c12_cell_rmw_w4, c12_cell_match_w4, 4, true);
//@ name=c12_cell_store_w5 props=C12,C03 tier=thorough fns=src/rt/atomic.rs::State::store,src/rt/atomic.rs::index models=VersionVec::join=s_vv_models_agree,VersionVec::ahead=s_vv_models_agree,FirstSeen::is_seen_by_current=s_firstseen
//@ name=c12_cell_load_w5 props=C12,C03 tier=thorough fns=src/rt/atomic.rs::State::load,src/rt/atomic.rs::State::apply_load_coherence,src/rt/atomic.rs::State::track_load models=VersionVec::join=s_vv_models_agree,VersionVec::ahead=s_vv_models_agree,FirstSeen::is_seen_by_current=s_firstseen
//@ name=c12_cell_rmw_w5 props=C12,C03 tier=thorough fns=src/rt/atomic.rs::State::rmw,src/rt/atomic.rs::State::track_store models=VersionVec::join=s_vv_models_agree,VersionVec::ahead=s_vv_models_agree,FirstSeen::is_seen_by_current=s_firstseen
//@ name=c12_cell_match_w5 props=C12,C03 tier=thorough fns=src/rt/atomic.rs::State::match_load_to_stores,src/rt/atomic.rs::State::match_rmw_to_stores models=VersionVec::join=s_vv_models_agree,VersionVec::ahead=s_vv_models_agree,FirstSeen::is_seen_by_current=s_firstseen
c12_cell_instances!(c12_cell_store_w5, c12_cell_load_w5, c12_cell_rmw_w5, c12_cell_match_w5, 5, true);
//@ name=c12_cell_store_w6 props=C12,C03 tier=thorough fns=src/rt/atomic.rs::State::store,src/rt/atomic.rs::index models=VersionVec::join=s_vv_models_agree,VersionVec::ahead=s_vv_models_agree,FirstSeen::is_seen_by_current=s_firstseen
//@ name=c12_cell_load_w6 props=C12,C03 tier=thorough fns=src/rt/atomic.rs::State::load,src/rt/atomic.rs::State::apply_load_coherence,src/rt/atomic.rs::State::track_load models=VersionVec::join=s_vv_models_agree,VersionVec::ahead=s_vv_models_agree,FirstSeen::is_seen_by_current=s_firstseen
//@ name=c12_cell_rmw_w6 props=C12,C03 tier=thorough fns=src/rt/atomic.rs::State::rmw,src/rt/atomic.rs::State::track_store models=VersionVec::join=s_vv_models_agree,VersionVec::ahead=s_vv_models_agree,FirstSeen::is_seen_by_current=s_firstseen
//@ name=c12_cell_match_w6 props=C12,C03 tier=thorough fns=src/rt/atomic.rs::State::match_load_to_stores,src/rt/atomic.rs::State::match_rmw_to_stores models=VersionVec::join=s_vv_models_agree,VersionVec::ahead=s_vv_models_agree,FirstSeen::is_seen_by_current=s_firstseen
c12_cell_instances!(c12_cell_store_w6, c12_cell_load_w6, c12_cell_rmw_w6, c12_cell_match_w6, 6, true);

// ================================================================================================
// S.firstseen: contracts for FirstSeen, and its contract model
// ================================================================================================

pub(crate) fn any_first_seen() -> FirstSeen {
    FirstSeen(kani::any())
}

/// Spec: seen by an event in the active thread's causal past.
pub(crate) fn spec_seen_by_current(fs: &[u16; MAX_THREADS], c: &VersionVec) -> bool {
    let mut r = false;
    let mut t = 0;
    while t < MAX_THREADS {
        if fs[t] != u16::MAX && fs[t] <= vv_get(c, t) {
            r = true;
        }
        t += 1;
    }
    r
}

impl FirstSeen {
    /// Contract model of `is_seen_by_current` (proved equal to the real function: s_firstseen).
    pub(crate) fn is_seen_by_current_model(&self, threads: &thread::Set) -> bool {
        spec_seen_by_current(&self.0, &threads.active().causality)
    }
}

//@ props=C02,C03,C12,C18 tier=quick fns=src/rt/atomic.rs::FirstSeen::new,src/rt/atomic.rs::FirstSeen::touch,src/rt/atomic.rs::FirstSeen::is_seen_by_current,src/rt/atomic.rs::FirstSeen::is_seen_before_yield
#[kani::proof]
#[kani::unwind(7)]
#[kani::stub(std::hash::RandomState::new, crate::rt::thread::verif_kani::fixed_random_state)]
fn s_firstseen() {
    let set = any_set(3);
    let a = crate::rt::thread::verif_kani::active_index(&set).unwrap();
    let th = crate::rt::thread::verif_kani::th_view(thread_at(&set, a));
    let fs = any_first_seen();
    let before = fs.0;
    oblige!("S.firstseen.seen_by_current_iff_some_slot_in_causal_past",
        fs.is_seen_by_current(&set) == spec_seen_by_current(&before, &th.causality));
    oblige!("S.firstseen.model_equals_real", fs.is_seen_by_current(&set) == fs.is_seen_by_current_model(&set));
    let by = fs.is_seen_before_yield(&set);
    let want = match th.last_yield {
        None => false,
        Some(y) => before[a] != u16::MAX && before[a] <= y,
    };
    oblige!("S.firstseen.before_yield_iff_own_slot_le_last_yield", by == want);
    let mut fs2 = FirstSeen(before);
    fs2.touch(&set);
    let mut t = 0;
    while t < MAX_THREADS {
        let want_t = if t == a && before[t] == u16::MAX { vv_get(&th.causality, a) } else { before[t] };
        oblige!("S.firstseen.touch_sets_only_own_unset_slot_to_own_clock", fs2.0[t] == want_t);
        t += 1;
    }
    let n = FirstSeen::new();
    oblige!("S.firstseen.new_all_unset", !spec_seen_by_current(&n.0, &th.causality) || vv_get(&th.causality, 0) == u16::MAX
        || vv_get(&th.causality, 1) == u16::MAX || vv_get(&th.causality, 2) == u16::MAX
        || vv_get(&th.causality, 3) == u16::MAX || vv_get(&th.causality, 4) == u16::MAX);
    reach!("s_firstseen");
}


// ================================================================================================
// C12.glue: rt::Atomic<T> (object-store lookup, branch, tick, candidate selection, path, u64
// conversion, with_mut write-back) refines the sequential-cell model in a one-thread execution.
// Real: Atomic::{new,load,store,rmw,unsync_load,with_mut}, rt::branch, rt::synchronize,
//       Ref::branch_action/set_action, Path::{is_traversed,push_load,branch_load},
//       State::{load,store,rmw,track_*}.
// Models: Execution::schedule (N=1), State::match_*_to_stores (C12.seq), join/ahead/is_seen_by_current.
// ================================================================================================

impl State {
    /// Contract model of `match_load_to_stores` under `wf_single` (proved: c12_cell_match_*).
    pub(crate) fn match_load_single_model(&self, _threads: &thread::Set, dst: &mut [u8], _o: Ordering) -> usize {
        dst[0] = index(self.cnt - 1) as u8;
        1
    }
    /// Contract model of `match_rmw_to_stores` under `wf_single` (proved: c12_cell_match_*).
    pub(crate) fn match_rmw_single_model(&self, dst: &mut [u8]) -> usize {
        dst[0] = index(self.cnt - 1) as u8;
        1
    }
}

/// One-thread execution holding one atomic (object 0) in ring phase (k, full), satisfying
/// `wf_single_k`; empty path (the atomic's operations are about to branch anew).
fn glue_exec(k: usize, full: bool) -> (ManuallyDrop<Execution>, Atomic<u64>) {
    let set = any_set(1);
    crate::rt::thread::verif_kani::assume_incrementable(&set);
    kani::assume(crate::rt::thread::verif_kani::wf_thread_clocks(&set));
    kani::assume(matches!(thread_at(&set, 0).state, thread::State::Runnable { .. }));
    // A6: the operation's own tick must not reach the u16::MAX sentinel of FirstSeen
    kani::assume(vv_get(&thread_at(&set, 0).causality, 0) < u16::MAX - 1);
    let mut st = any_atomic_state();
    st.cnt = cnt_for(k, full);
    let c = thread_at(&set, 0).causality;
    kani::assume(wf_single_k(&atomic_view(&st), &c, k, full) && st.cnt < u16::MAX);
    let mut ex = crate::rt::execution::verif_kani::exec_with(ManuallyDrop::into_inner(set), 4);
    let r = crate::rt::execution::verif_kani::objects_mut(&mut ex).insert(st);
    (ex, Atomic { state: r, _p: PhantomData })
}

fn glue_view(ex: &Execution, a: &Atomic<u64>) -> AtomicView {
    atomic_view(a.state.get(crate::rt::execution::verif_kani::objects(ex)))
}

/// Abstraction function to the sequential cell: the value of the newest store.
fn cell_of(v: &AtomicView, k: usize) -> u64 {
    v.stores[newest_for(k)].value
}

macro_rules! c12_glue_instances {
    ($load:ident, $store:ident, $rmw:ident, $owned:ident, $k:expr, $full:expr) => {
        crate::with_fire_forbidden! {
        #[kani::proof]
        #[kani::unwind(12)]
        #[kani::stub(crate::rt::execution::Execution::schedule, crate::rt::execution::Execution::schedule_model_n1)]
        #[kani::stub(crate::rt::atomic::State::match_load_to_stores, crate::rt::atomic::State::match_load_single_model)]
        #[kani::stub(crate::rt::atomic::State::match_rmw_to_stores, crate::rt::atomic::State::match_rmw_single_model)]
        fn $load() {
            let (mut ex, a) = glue_exec($k, $full);
            let old = glue_view(&ex, &a);
            let o = any_order();
            let r = crate::rt::scheduler::verif_kani::with_ctx(&mut ex, || a.load(Location::disabled(), o));
            let new = glue_view(&ex, &a);
            oblige!("C12.glue.load_returns_cell", r == cell_of(&old, $k));
            oblige!("C12.glue.load_keeps_cell", new.cnt == old.cnt && values_unchanged(&old, &new));
            let c2 = crate::rt::thread::verif_kani::thread_at(&ex.threads, 0).causality;
            oblige!("C12.glue.load_preserves_wf_single", wf_single_k(&new, &c2, $k, $full));
            reach!("c12_glue_load");
        }
        }

        crate::with_fire_forbidden! {
        #[kani::proof]
        #[kani::unwind(12)]
        #[kani::stub(crate::rt::execution::Execution::schedule, crate::rt::execution::Execution::schedule_model_n1)]
        fn $store() {
            let (mut ex, a) = glue_exec($k, $full);
            let old = glue_view(&ex, &a);
            let o = any_order();
            let x: u64 = kani::any();
            crate::rt::scheduler::verif_kani::with_ctx(&mut ex, || a.store(Location::disabled(), x, o));
            let new = glue_view(&ex, &a);
            let (k2, full2) = if $full { (($k + 1) % H, true) } else if $k + 1 == H { (0, true) } else { ($k + 1, false) };
            oblige!("C12.glue.store_sets_cell", new.cnt == old.cnt + 1 && cell_of(&new, k2) == x);
            let c2 = crate::rt::thread::verif_kani::thread_at(&ex.threads, 0).causality;
            oblige!("C12.glue.store_preserves_wf_single", wf_single_k(&new, &c2, k2, full2));
            reach!("c12_glue_store");
        }
        }

        crate::with_fire_forbidden! {
        #[kani::proof]
        #[kani::unwind(12)]
        #[kani::stub(crate::rt::execution::Execution::schedule, crate::rt::execution::Execution::schedule_model_n1)]
        #[kani::stub(crate::rt::atomic::State::match_load_to_stores, crate::rt::atomic::State::match_load_single_model)]
        #[kani::stub(crate::rt::atomic::State::match_rmw_to_stores, crate::rt::atomic::State::match_rmw_single_model)]
        fn $rmw() {
            let (mut ex, a) = glue_exec($k, $full);
            let old = glue_view(&ex, &a);
            let (so, fo) = (any_order(), any_order());
            let next: u64 = kani::any();
            let fail: bool = kani::any();
            let r = crate::rt::scheduler::verif_kani::with_ctx(&mut ex, || {
                a.rmw(Location::disabled(), so, fo, |p| if fail { Err(p.wrapping_add(1)) } else { Ok(next) })
            });
            let new = glue_view(&ex, &a);
            let c2 = crate::rt::thread::verif_kani::thread_at(&ex.threads, 0).causality;
            if fail {
                oblige!("C12.glue.rmw_err_is_closure_error_and_keeps_cell",
                    r == Err(cell_of(&old, $k).wrapping_add(1)) && new.cnt == old.cnt && values_unchanged(&old, &new));
                oblige!("C12.glue.rmw_preserves_wf_single", wf_single_k(&new, &c2, $k, $full));
            } else {
                let (k2, full2) = if $full { (($k + 1) % H, true) } else if $k + 1 == H { (0, true) } else { ($k + 1, false) };
                oblige!("C12.glue.rmw_ok_returns_old_cell_and_sets_new", r == Ok(cell_of(&old, $k)) && cell_of(&new, k2) == next && new.cnt == old.cnt + 1);
                oblige!("C12.glue.rmw_preserves_wf_single", wf_single_k(&new, &c2, k2, full2));
            }
            reach!("c12_glue_rmw");
        }
        }

        crate::with_fire_forbidden! {
        #[kani::proof]
        #[kani::unwind(12)]
        fn $owned() {
            let (mut ex, mut a) = glue_exec($k, $full);
            let old = glue_view(&ex, &a);
            let u = crate::rt::scheduler::verif_kani::with_ctx(&mut ex, || a.unsync_load(Location::disabled()));
            oblige!("C12.glue.unsync_load_returns_cell", u == cell_of(&old, $k));
            let mid = glue_view(&ex, &a);
            oblige!("C12.glue.unsync_load_keeps_cell", mid.cnt == old.cnt && values_unchanged(&old, &mid));
            let x: u64 = kani::any();
            let seen = crate::rt::scheduler::verif_kani::with_ctx(&mut ex, || {
                a.with_mut(Location::disabled(), |p| {
                    let s = *p;
                    *p = x;
                    s
                })
            });
            let new = glue_view(&ex, &a);
            oblige!("C12.glue.with_mut_sees_cell", seen == cell_of(&old, $k));
            oblige!("C12.glue.with_mut_writes_back", new.cnt == old.cnt && cell_of(&new, $k) == x && !new.is_mutating);
            let c2 = crate::rt::thread::verif_kani::thread_at(&ex.threads, 0).causality;
            oblige!("C12.glue.owned_ops_preserve_wf_single", wf_single_k(&new, &c2, $k, $full));
            reach!("c12_glue_owned");
        }
        }
    };
}

//@ name=c12_glue_load_p1 props=C12 tier=quick fns=src/rt/atomic.rs::Atomic::load,src/rt/mod.rs::synchronize,src/rt/mod.rs::branch,src/rt/object.rs::Ref::branch_action,src/rt/path.rs::Path::push_load,src/rt/path.rs::Path::branch_load models=Execution::schedule=c05_schedule_n1,State::match_load_to_stores=c12_cell_match_*
//@ name=c12_glue_store_p1 props=C12 tier=quick fns=src/rt/atomic.rs::Atomic::store models=Execution::schedule=c05_schedule_n1
//@ name=c12_glue_rmw_p1 props=C12 tier=quick fns=src/rt/atomic.rs::Atomic::rmw models=Execution::schedule=c05_schedule_n1,State::match_rmw_to_stores=c12_cell_match_*
//@ name=c12_glue_owned_p1 props=C12 tier=quick fns=src/rt/atomic.rs::Atomic::unsync_load,src/rt/atomic.rs::Atomic::with_mut,src/rt/atomic.rs::State::track_unsync_load,src/rt/atomic.rs::State::track_unsync_mut
c12_glue_instances!(c12_glue_load_p1, c12_glue_store_p1, c12_glue_rmw_p1, c12_glue_owned_p1, 1, false);
//@ name=c12_glue_load_w0 props=C12 tier=thorough fns=src/rt/atomic.rs::Atomic::load models=Execution::schedule=c05_schedule_n1,State::match_load_to_stores=c12_cell_match_*
//@ name=c12_glue_store_w0 props=C12 tier=quick fns=src/rt/atomic.rs::Atomic::store models=Execution::schedule=c05_schedule_n1
//@ name=c12_glue_rmw_w0 props=C12 tier=thorough fns=src/rt/atomic.rs::Atomic::rmw models=Execution::schedule=c05_schedule_n1,State::match_rmw_to_stores=c12_cell_match_*
//@ name=c12_glue_owned_w0 props=C12 tier=quick fns=src/rt/atomic.rs::Atomic::unsync_load,src/rt/atomic.rs::Atomic::with_mut
c12_glue_instances!(c12_glue_load_w0, c12_glue_store_w0, c12_glue_rmw_w0, c12_glue_owned_w0, 0, true);

//@ name=c12_glue_load_w3 props=C12 tier=thorough fns=src/rt/atomic.rs::Atomic::load models=Execution::schedule=c05_schedule_n1,State::match_load_to_stores=c12_cell_match_*
//@ name=c12_glue_store_w3 props=C12 tier=thorough fns=src/rt/atomic.rs::Atomic::store models=Execution::schedule=c05_schedule_n1
//@ name=c12_glue_rmw_w3 props=C12 tier=thorough fns=src/rt/atomic.rs::Atomic::rmw models=Execution::schedule=c05_schedule_n1,State::match_rmw_to_stores=c12_cell_match_*
//@ name=c12_glue_owned_w3 props=C12 tier=quick fns=src/rt/atomic.rs::Atomic::unsync_load,src/rt/atomic.rs::Atomic::with_mut
c12_glue_instances!(c12_glue_load_w3, c12_glue_store_w3, c12_glue_rmw_w3, c12_glue_owned_w3, 3, true);

crate::with_fire_forbidden! {
//@ props=C12 tier=quick fns=src/rt/atomic.rs::Atomic::new,src/rt/object.rs::Store::insert
#[kani::proof]
#[kani::unwind(12)]
fn c12_glue_new() {
    let set = any_set(1);
    crate::rt::thread::verif_kani::assume_incrementable(&set);
    kani::assume(crate::rt::thread::verif_kani::wf_thread_clocks(&set));
    let mut ex = crate::rt::execution::verif_kani::exec_with(ManuallyDrop::into_inner(set), 4);
    let v: u64 = kani::any();
    let a = crate::rt::scheduler::verif_kani::with_ctx(&mut ex, || Atomic::<u64>::new(v, Location::disabled()));
    let av = glue_view(&ex, &a);
    let c = crate::rt::thread::verif_kani::thread_at(&ex.threads, 0).causality;
    oblige!("C12.glue.new_sets_cell", av.cnt == 1 && cell_of(&av, 1) == v);
    oblige!("C12.glue.new_establishes_wf_single", wf_single_k(&av, &c, 1, false));
    reach!("c12_glue_new");
}
}

// ================================================================================================
// C04: the non-atomic view of atomics (track_load / track_store / track_unsync_load / track_unsync_mut)
// Conflict matrix of the property: with_mut conflicts with every other access; unsync_load conflicts
// with atomic stores and with_mut; atomic load || atomic store and load || unsync_load do not conflict.
// ================================================================================================

fn race_active_causality(set: &thread::Set) -> VersionVec {
    thread_at(set, crate::rt::thread::verif_kani::active_index(set).unwrap()).causality
}

crate::with_fire_forbidden! {
//@ props=C04 tier=quick fns=src/rt/atomic.rs::State::track_load,src/rt/atomic.rs::State::track_store,src/rt/atomic.rs::State::track_unsync_load,src/rt/atomic.rs::State::track_unsync_mut models=VersionVec::join=s_vv_models_agree,VersionVec::ahead=s_vv_models_agree,PanicBuilder::fire=forbidden
#[kani::proof]
#[kani::unwind(9)]
fn c04_atomic_track_ordered_access_is_silent() {
    let set = any_set(3);
    let c = race_active_causality(&set);
    let mut st = any_atomic_state();
    let old = atomic_view(&st);
    let k: u8 = kani::any();
    match k {
        0 => {
            kani::assume(vv_le(&old.unsync_mut_at, &c));
            st.track_load(&set);
            let new = atomic_view(&st);
            oblige!("C04.atomic.track_load.exact_update", is_join(&new.loaded_at, &old.loaded_at, &c)
                && vv_eq(&new.stored_at, &old.stored_at) && vv_eq(&new.unsync_loaded_at, &old.unsync_loaded_at) && vv_eq(&new.unsync_mut_at, &old.unsync_mut_at));
        }
        1 => {
            kani::assume(vv_le(&old.unsync_mut_at, &c) && vv_le(&old.unsync_loaded_at, &c));
            st.track_store(&set);
            let new = atomic_view(&st);
            oblige!("C04.atomic.track_store.exact_update", is_join(&new.stored_at, &old.stored_at, &c)
                && vv_eq(&new.loaded_at, &old.loaded_at) && vv_eq(&new.unsync_loaded_at, &old.unsync_loaded_at) && vv_eq(&new.unsync_mut_at, &old.unsync_mut_at));
        }
        2 => {
            kani::assume(vv_le(&old.unsync_mut_at, &c) && vv_le(&old.stored_at, &c));
            st.track_unsync_load(&set);
            let new = atomic_view(&st);
            oblige!("C04.atomic.track_unsync_load.exact_update", is_join(&new.unsync_loaded_at, &old.unsync_loaded_at, &c)
                && vv_eq(&new.loaded_at, &old.loaded_at) && vv_eq(&new.stored_at, &old.stored_at) && vv_eq(&new.unsync_mut_at, &old.unsync_mut_at));
        }
        _ => {
            kani::assume(vv_le(&old.unsync_mut_at, &c) && vv_le(&old.stored_at, &c) && vv_le(&old.loaded_at, &c) && vv_le(&old.unsync_loaded_at, &c));
            st.track_unsync_mut(&set);
            let new = atomic_view(&st);
            oblige!("C04.atomic.track_unsync_mut.exact_update", is_join(&new.unsync_mut_at, &old.unsync_mut_at, &c)
                && vv_eq(&new.loaded_at, &old.loaded_at) && vv_eq(&new.stored_at, &old.stored_at) && vv_eq(&new.unsync_loaded_at, &old.unsync_loaded_at));
        }
    }
    let new = atomic_view(&st);
    oblige!("C04.atomic.track.ring_untouched", new.cnt == old.cnt && values_unchanged(&old, &new) && !new.is_mutating);
    reach!("c04_atomic_track_ordered");
}
}

crate::with_fire_expected! {
//@ props=C04 tier=quick fns=src/rt/atomic.rs::State::track_load,src/rt/atomic.rs::State::track_store,src/rt/atomic.rs::State::track_unsync_load,src/rt/atomic.rs::State::track_unsync_mut models=VersionVec::ahead=s_vv_models_agree,PanicBuilder::fire=expected
#[kani::proof]
#[kani::unwind(9)]
fn c04_atomic_track_unordered_conflict_is_reported() {
    let set = any_set(3);
    let c = race_active_causality(&set);
    let mut st = any_atomic_state();
    let old = atomic_view(&st);
    let k: u8 = kani::any();
    match k {
        0 => {
            kani::assume(!vv_le(&old.unsync_mut_at, &c));
            st.track_load(&set);
        }
        1 => {
            kani::assume(!vv_le(&old.unsync_mut_at, &c) || !vv_le(&old.unsync_loaded_at, &c));
            st.track_store(&set);
        }
        2 => {
            kani::assume(!vv_le(&old.unsync_mut_at, &c) || !vv_le(&old.stored_at, &c));
            st.track_unsync_load(&set);
        }
        _ => {
            kani::assume(!vv_le(&old.unsync_mut_at, &c) || !vv_le(&old.stored_at, &c) || !vv_le(&old.loaded_at, &c) || !vv_le(&old.unsync_loaded_at, &c));
            st.track_unsync_mut(&set);
        }
    }
    must_not_reach!("C04.atomic.track.returns_silently_despite_unordered_conflict");
}
}

// ================================================================================================
// C01.cover.atomic: the two "last access" summaries of an atomic must cover every earlier access
// that races with a pending operation (history of two accesses recorded as `schedule` records them)
// ================================================================================================

fn any_atomic_action() -> Action {
    match kani::any::<u8>() {
        0 => Action::Load,
        1 => Action::Store,
        _ => Action::Rmw,
    }
}

fn atomic_dependent(a: Action, b: Action) -> bool {
    !(a == Action::Load && b == Action::Load)
}

fn atomic_cover_body(inside: bool) {
    let mut st = any_atomic_state();
    let (a1, a2, b) = (any_atomic_action(), any_atomic_action(), any_atomic_action());
    let (v1, v2, vb) = (any_vv(), any_vv(), any_vv());
    let (p1, p2): (usize, usize) = (kani::any(), kani::any());
    kani::assume(p1 < p2);
    st.set_last_access(a1, p1, &v1);
    // `schedule` joins the clock of the access the new one depends on before recording it
    if let Some(d) = st.last_dependent_access(a2) {
        kani::assume(vv_le(d.version(), &v2));
    }
    st.set_last_access(a2, p2, &v2);
    // finding region F4a: two mutually unordered loads, then a store / rmw
    let region = a1 == Action::Load && a2 == Action::Load && b != Action::Load && !vv_le(&v1, &v2);
    kani::assume(region == inside);
    let got = st.last_dependent_access(b).map(|x| crate::rt::access::verif_kani::access_parts(x));
    let covered = |hv: &VersionVec, hp: usize| -> bool {
        match got {
            Some((q, w)) => (q == hp && vv_eq(&w, hv)) || (vv_le(hv, &w) && !vv_le(&w, &vb)),
            None => false,
        }
    };
    oblige!("C01.cover.atomic.first_recorded_access_racing_with_pending_op_is_covered",
        !(atomic_dependent(a1, b) && !vv_le(&v1, &vb)) || covered(&v1, p1));
    oblige!("C01.cover.atomic.second_recorded_access_racing_with_pending_op_is_covered",
        !(atomic_dependent(a2, b) && !vv_le(&v2, &vb)) || covered(&v2, p2));
    reach!("c01_atomic_cover");
}

//@ props=C01 tier=quick fns=src/rt/atomic.rs::State::last_dependent_access,src/rt/atomic.rs::State::set_last_access bounded=history:2_accesses
#[kani::proof]
#[kani::unwind(9)]
fn c01_atomic_cover__outside() {
    atomic_cover_body(false);
}

//@ props=C01 tier=quick fns=src/rt/atomic.rs::State::last_dependent_access,src/rt/atomic.rs::State::set_last_access bounded=history:2_accesses finding=F4a expect=C01.cover.atomic.first_recorded_access_racing_with_pending_op_is_covered
#[kani::proof]
#[kani::unwind(9)]
fn c01_atomic_cover__inside() {
    atomic_cover_body(true);
}

// ================================================================================================
// C02 / C03 / C18: the general (multi-thread) contracts of atomic::State
// ================================================================================================

/// `wf_atomic` for `nlive` live slots (slots 0..nlive-1 when nlive < 7, all when nlive == 7):
/// live stores have pairwise distinct modification-order clocks (loom asserts this itself: F6),
/// a store is at least as late in mo as its own happens-before view, its writer has seen it, and
/// never-written slots are default.
pub(crate) fn wf_atomic(v: &AtomicView, nlive: usize) -> bool {
    let mut ok = !v.is_mutating && (if nlive < H { v.cnt as usize == nlive } else { v.cnt as usize >= H }) && nlive >= 1;
    let mut i = 0;
    while i < H {
        if i < nlive {
            ok = ok && vv_le(&v.stores[i].hb, &v.stores[i].mo);
            let mut j = 0;
            while j < H {
                if j < nlive && j != i {
                    ok = ok && !vv_eq(&v.stores[i].mo, &v.stores[j].mo);
                }
                j += 1;
            }
        } else {
            ok = ok && slot_is_default(&v.stores[i]);
        }
        i += 1;
    }
    ok
}

fn seen_before_yield(fs: &[u16; MAX_THREADS], a: usize, last_yield: Option<u16>) -> bool {
    match last_yield {
        None => false,
        Some(y) => {
            let s = if a == 0 { fs[0] } else if a == 1 { fs[1] } else { fs[2] };
            s != u16::MAX && s <= y
        }
    }
}

fn match_load_body(nlive: usize) {
    let set = any_set(2);
    let a = crate::rt::thread::verif_kani::active_index(&set).unwrap();
    let th = crate::rt::thread::verif_kani::th_view(thread_at(&set, a));
    let c = th.causality;
    let mut st = any_atomic_state();
    if nlive < H {
        st.cnt = nlive as u16;
    } else {
        kani::assume(st.cnt as usize >= H);
    }
    let v = atomic_view(&st);
    kani::assume(wf_atomic(&v, nlive));
    let o = any_order();
    let mut seed = [0u8; H];
    let n = st.match_load_to_stores(&set, &mut seed[..], o);
    oblige!("C02.candidates.count_in_range", n <= nlive);
    // membership vector
    let mut offered = [false; H];
    let mut k = 0;
    while k < H {
        if k < n {
            let idx = seed[k] as usize;
            oblige!("C02.candidates.only_live_slots_offered", idx < nlive);
            let mut j = 0;
            while j < H {
                if j == idx {
                    oblige!("C02.candidates.each_candidate_offered_once", !offered[j]);
                    offered[j] = true;
                }
                j += 1;
            }
        }
        k += 1;
    }
    let mut i = 0;
    while i < H {
        if i < nlive && !offered[i] {
            // C02: a live store may be withheld only for a stated reason, each of which needs a live
            // store j that is strictly later in modification order
            let mut reason = false;
            let mut j = 0;
            while j < H {
                if j < nlive && j != i && vv_lt(&v.stores[i].mo, &v.stores[j].mo) {
                    let coherence = spec_seen_by_current(&v.stores[j].first_seen, &c);
                    let yield_rule = seen_before_yield(&v.stores[i].first_seen, a, th.last_yield);
                    let sc_rule = o == Ordering::SeqCst && v.stores[i].seq_cst && v.stores[j].seq_cst;
                    reason = reason || coherence || yield_rule || sc_rule;
                }
                j += 1;
            }
            oblige!("C02.candidates.store_withheld_only_for_a_coherence_yield_or_sc_reason", reason);
        }
        if i < nlive && offered[i] {
            // C03 (coherence, CoRR/CoWR as encoded by mo): a store is not offered when a mo-later
            // store has already been observed by an event in the loading thread's causal past
            let mut j = 0;
            while j < H {
                if j < nlive && j != i && vv_lt(&v.stores[i].mo, &v.stores[j].mo) {
                    oblige!("C03.coherence.no_read_of_a_store_older_than_one_already_observed",
                        !spec_seen_by_current(&v.stores[j].first_seen, &c));
                }
                j += 1;
            }
        }
        // C18: a modification-order-maximal store is never withheld (a spin loop can always exit
        // with the newest value)
        if i < nlive {
            let mut maximal = true;
            let mut j = 0;
            while j < H {
                if j < nlive && j != i && vv_lt(&v.stores[i].mo, &v.stores[j].mo) {
                    maximal = false;
                }
                j += 1;
            }
            oblige!("C18.noexitloss.mo_maximal_store_always_offered", !maximal || offered[i]);
        }
        i += 1;
    }
    // match_rmw_to_stores: exactly the mo-maximal live stores (C03.rmw: an RMW reads the latest value)
    let mut seed2 = [0u8; H];
    let n2 = st.match_rmw_to_stores(&mut seed2[..]);
    let mut off2 = [false; H];
    let mut k = 0;
    while k < H {
        if k < n2 {
            let idx = seed2[k] as usize;
            let mut j = 0;
            while j < H {
                if j == idx {
                    off2[j] = true;
                }
                j += 1;
            }
        }
        k += 1;
    }
    let mut i = 0;
    while i < H {
        let mut maximal = i < nlive;
        let mut j = 0;
        while j < H {
            if i < nlive && j < nlive && j != i && vv_lt(&v.stores[i].mo, &v.stores[j].mo) {
                maximal = false;
            }
            j += 1;
        }
        oblige!("C03.rmw.candidates_are_exactly_the_mo_maximal_stores", off2[i] == maximal);
        i += 1;
    }
    reach!("c02_match_load");
}

//@ props=C02,C03,C18 tier=quick timeout=1800 fns=src/rt/atomic.rs::State::match_load_to_stores,src/rt/atomic.rs::State::match_rmw_to_stores,src/rt/atomic.rs::FirstSeen::is_seen_before_yield bounded=threads:N=2,live_stores:2 models=FirstSeen::is_seen_by_current=s_firstseen
#[kani::proof]
#[kani::unwind(12)]
#[kani::stub(std::hash::RandomState::new, crate::rt::thread::verif_kani::fixed_random_state)]
#[kani::stub(crate::rt::atomic::FirstSeen::is_seen_by_current, crate::rt::atomic::FirstSeen::is_seen_by_current_model)]
fn c02_match_load_live2() {
    match_load_body(2);
}

//@ props=C02,C03,C18 tier=quick timeout=1800 fns=src/rt/atomic.rs::State::match_load_to_stores,src/rt/atomic.rs::State::match_rmw_to_stores bounded=threads:N=2,live_stores:3 models=FirstSeen::is_seen_by_current=s_firstseen
#[kani::proof]
#[kani::unwind(12)]
#[kani::stub(std::hash::RandomState::new, crate::rt::thread::verif_kani::fixed_random_state)]
#[kani::stub(crate::rt::atomic::FirstSeen::is_seen_by_current, crate::rt::atomic::FirstSeen::is_seen_by_current_model)]
fn c02_match_load_live3() {
    match_load_body(3);
}

//@ props=C02,C03,C18 tier=thorough timeout=3000 fns=src/rt/atomic.rs::State::match_load_to_stores,src/rt/atomic.rs::State::match_rmw_to_stores bounded=threads:N=2,live_stores:7 models=FirstSeen::is_seen_by_current=s_firstseen
#[kani::proof]
#[kani::unwind(12)]
#[kani::stub(std::hash::RandomState::new, crate::rt::thread::verif_kani::fixed_random_state)]
#[kani::stub(crate::rt::atomic::FirstSeen::is_seen_by_current, crate::rt::atomic::FirstSeen::is_seen_by_current_model)]
fn c02_match_load_live7() {
    match_load_body(7);
}

// ---- State::store (general): C02.store_order / C03 write-write & read-write coherence ---------------

fn store_general_body(k: usize, full: bool) {
    let mut set = any_set(2);
    crate::rt::thread::verif_kani::assume_incrementable(&set);
    let a = crate::rt::thread::verif_kani::active_index(&set).unwrap();
    let th = crate::rt::thread::verif_kani::th_view(thread_at(&set, a));
    let mut st = any_atomic_state();
    st.cnt = cnt_for(k, full);
    kani::assume(st.cnt < u16::MAX);
    let old = atomic_view(&st);
    let given = any_sync();
    let given_hb = sync_hb(&given);
    let val: u64 = kani::any();
    let o = any_order();
    st.store(&mut set, given, val, o);
    let new = atomic_view(&st);
    let slot = k % H;
    let ns = new.stores[slot];
    // expected modification-order clock: own view joined with the mo of every store already observed
    // by an event in the writer's causal past -- and nothing more (two racing stores stay unordered)
    let mut want_mo = th.causality;
    let mut i = 0;
    while i < H {
        if spec_seen_by_current(&old.stores[i].first_seen, &th.causality) {
            want_mo = join_of(&want_mo, &old.stores[i].mo);
        }
        i += 1;
    }
    let mut want_sync = join_of(&given_hb, &th.released);
    if crate::rt::synchronize::verif_kani::releases(o) {
        want_sync = join_of(&want_sync, &th.causality);
    }
    oblige!("C03.store.records_value_and_writers_view", ns.value == val && vv_eq(&ns.hb, &th.causality) && new.cnt == old.cnt + 1);
    oblige!("C02.store_order.mo_is_exactly_own_view_joined_with_observed_stores", vv_eq(&ns.mo, &want_mo));
    oblige!("C03.store.release_view_is_exact", vv_eq(&ns.sync, &want_sync));
    oblige!("C03.store.seq_cst_flag", ns.seq_cst == (o == Ordering::SeqCst));
    let mut t = 0;
    while t < MAX_THREADS {
        let want = if t == a { vv_get(&th.causality, a) } else { u16::MAX };
        oblige!("C03.store.first_seen_only_by_writer", ns.first_seen[t] == want);
        t += 1;
    }
    let mut i = 0;
    while i < H {
        oblige!("C03.store.other_slots_untouched", i == slot || store_view_eq(&old.stores[i], &new.stores[i]));
        i += 1;
    }
    let nt = crate::rt::thread::verif_kani::th_view(thread_at(&set, a));
    oblige!("C02.nosync.store_changes_no_thread_view", crate::rt::thread::verif_kani::th_view_eq(&th, &nt));
    reach!("c03_store_general");
}

crate::with_fire_forbidden! {
//@ props=C02,C03 tier=quick fns=src/rt/atomic.rs::State::store bounded=threads:N=2 models=VersionVec::join=s_vv_models_agree,FirstSeen::is_seen_by_current=s_firstseen
#[kani::proof]
#[kani::unwind(12)]
fn c03_store_general_p3() {
    store_general_body(3, false);
}
}

crate::with_fire_forbidden! {
//@ props=C02,C03 tier=quick fns=src/rt/atomic.rs::State::store bounded=threads:N=2 models=VersionVec::join=s_vv_models_agree,FirstSeen::is_seen_by_current=s_firstseen
#[kani::proof]
#[kani::unwind(12)]
fn c03_store_general_w5() {
    store_general_body(5, true);
}
}

// ---- State::load (general) ----------------------------------------------------------------------------

fn load_general_body(idx: usize) {
    load_general_body_live(idx, H)
}

/// `nlive < 7`: only slots 0..nlive hold stores, the others are default (quick-tier sub-case).
fn load_general_body_live(idx: usize, nlive: usize) {
    let mut set = any_set(2);
    crate::rt::thread::verif_kani::assume_incrementable(&set);
    let a = crate::rt::thread::verif_kani::active_index(&set).unwrap();
    let th = crate::rt::thread::verif_kani::th_view(thread_at(&set, a));
    let mut st = any_atomic_state();
    kani::assume(!st.is_mutating && vv_le(&st.unsync_mut_at, &th.causality)); // no race: C04 has its own harnesses
    if nlive < H {
        st.cnt = nlive as u16;
        let v0 = atomic_view(&st);
        let mut i = 0;
        while i < H {
            kani::assume(i < nlive || slot_is_default(&v0.stores[i]));
            i += 1;
        }
    }
    let old = atomic_view(&st);
    let o = any_order();
    let r = load_at(&mut st, &mut set, idx, o);
    let new = atomic_view(&st);
    let nt = crate::rt::thread::verif_kani::th_view(thread_at(&set, a));
    let (os, ns) = (old.stores[idx], new.stores[idx]);
    oblige!("C03.load.returns_value_of_the_chosen_store", r == os.value);
    let want_c = if crate::rt::synchronize::verif_kani::acquires(o) { join_of(&th.causality, &os.sync) } else { th.causality };
    oblige!("C02.nosync.load_acquires_exactly_per_ordering", vv_eq(&nt.causality, &want_c)
        && crate::rt::thread::verif_kani::th_view_eq_except_causality(&th, &nt));
    // read-read and write-read coherence: the read store becomes mo-later than EVERY store already
    // observed by (or happening before) the loading thread, whatever its ring slot
    let mut i = 0;
    while i < H {
        if i != idx {
            let must = spec_seen_by_current(&old.stores[i].first_seen, &th.causality) || vv_lt(&old.stores[i].hb, &th.causality);
            oblige!("C03.load.coherence_orders_the_read_store_after_every_observed_or_hb_earlier_store", !must || vv_le(&old.stores[i].mo, &ns.mo));
        }
        i += 1;
    }
    oblige!("C03.load.coherence_only_moves_the_read_store_later_in_mo", vv_le(&os.mo, &ns.mo) && ns.value == os.value
        && vv_eq(&ns.hb, &os.hb) && vv_eq(&ns.sync, &os.sync) && ns.seq_cst == os.seq_cst);
    let mut t = 0;
    while t < MAX_THREADS {
        let want = if t == a && os.first_seen[t] == u16::MAX { vv_get(&th.causality, a) } else { os.first_seen[t] };
        oblige!("C03.load.marks_first_seen_for_the_loading_thread_only", ns.first_seen[t] == want);
        t += 1;
    }
    let mut i = 0;
    while i < H {
        oblige!("C03.load.other_slots_untouched", i == idx || store_view_eq(&old.stores[i], &new.stores[i]));
        i += 1;
    }
    oblige!("C03.load.count_unchanged", new.cnt == old.cnt);
    reach!("c03_load_general");
}

crate::with_fire_forbidden! {
//@ props=C02,C03 tier=thorough timeout=3000 fns=src/rt/atomic.rs::State::load,src/rt/atomic.rs::State::apply_load_coherence bounded=threads:N=2,live_stores:3,read_index:1 models=VersionVec::join=s_vv_models_agree,FirstSeen::is_seen_by_current=s_firstseen
#[kani::proof]
#[kani::unwind(12)]
fn c03_load_general_l3() {
    load_general_body_live(1, 3);
}
}

crate::with_fire_forbidden! {
//@ props=C02,C03 tier=thorough timeout=3000 fns=src/rt/atomic.rs::State::load,src/rt/atomic.rs::State::apply_load_coherence bounded=threads:N=2,read_index:3 models=VersionVec::join=s_vv_models_agree,FirstSeen::is_seen_by_current=s_firstseen
#[kani::proof]
#[kani::unwind(12)]
fn c03_load_general_i3() {
    load_general_body(3);
}
}

crate::with_fire_forbidden! {
//@ props=C02,C03 tier=thorough timeout=3000 fns=src/rt/atomic.rs::State::load,src/rt/atomic.rs::State::apply_load_coherence bounded=threads:N=2,read_index:0|3|6 models=VersionVec::join=s_vv_models_agree,FirstSeen::is_seen_by_current=s_firstseen
#[kani::proof]
#[kani::unwind(12)]
fn c03_load_general() {
    match kani::any::<u8>() {
        0 => load_general_body(0),
        1 => load_general_body(3),
        _ => load_general_body(6),
    }
}
}

// ---- fences (S.fence; C02 no over-synchronisation, C03 no under-synchronisation, SC total order) ------

/// Execution with 2 threads and one atomic (object 0) holding `nlive` live stores (cnt = nlive < 7).
fn fence_exec(nlive: usize) -> ManuallyDrop<Execution> {
    let set = any_set(2);
    let mut st = any_atomic_state();
    st.cnt = nlive as u16;
    kani::assume(wf_atomic(&atomic_view(&st), nlive));
    let mut ex = crate::rt::execution::verif_kani::exec_with(ManuallyDrop::into_inner(set), 4);
    crate::rt::execution::verif_kani::objects_mut(&mut ex).insert(st);
    ex
}

fn atomic0(ex: &Execution) -> AtomicView {
    let r: object::Ref<State> = crate::rt::object::verif_kani::mk_ref(0);
    atomic_view(r.get(crate::rt::execution::verif_kani::objects(ex)))
}

/// Finding region F2: some live store has NOT been read (or written) by the fencing thread itself.
/// (`fence_acq` tests `is_seen_by_current`, i.e. "seen by any thread in my causal past", and
/// re-evaluates it while the fence's own joins enlarge that past; whenever the fencing thread has
/// itself seen every live store the two notions coincide.)
fn region_f2(v: &AtomicView, nlive: usize, a: usize, _c: &VersionVec) -> bool {
    let mut r = false;
    let mut i = 0;
    while i < H {
        if i < nlive {
            let own = if a == 0 { v.stores[i].first_seen[0] } else { v.stores[i].first_seen[1] };
            if own == u16::MAX {
                r = true;
            }
        }
        i += 1;
    }
    r
}

fn fence_acq_body(inside: bool) {
    const NL: usize = 2;
    let mut ex = fence_exec(NL);
    let old = set_view(&ex.threads);
    let a = old.active.unwrap();
    let oa = old.th[a];
    let av = atomic0(&ex);
    // validity: a thread's own first-seen stamp is in its own past
    let mut i = 0;
    while i < NL {
        let own = if a == 0 { av.stores[i].first_seen[0] } else { av.stores[i].first_seen[1] };
        kani::assume(own == u16::MAX || own <= vv_get(&oa.causality, a));
        i += 1;
    }
    kani::assume(region_f2(&av, NL, a, &oa.causality) == inside);
    fence_acq(&mut ex);
    let new = set_view(&ex.threads);
    let na = new.th[a];
    // C11 acquire fence: synchronises with the release stores that the fencing thread ITSELF has read
    let mut want = oa.causality;
    let mut i = 0;
    while i < NL {
        let own = if a == 0 { av.stores[i].first_seen[0] } else { av.stores[i].first_seen[1] };
        if own != u16::MAX {
            want = join_of(&want, &av.stores[i].sync);
        }
        i += 1;
    }
    oblige!("C03.fence_acq.picks_up_every_store_read_by_this_thread", vv_le(&want, &na.causality));
    oblige!("C02.fence_acq.synchronises_with_nothing_else", vv_le(&na.causality, &want));
    let (oo, no) = (old.th[1 - a], new.th[1 - a]); // by value (CBMC: never `&arr[sym]`)
    oblige!("S.fence_acq.frame", crate::rt::thread::verif_kani::th_view_eq_except_causality(&oa, &na)
        && th_view_eq(&oo, &no) && vv_eq(&new.seq_cst, &old.seq_cst));
    let an = atomic0(&ex);
    oblige!("S.fence_acq.atomic_untouched", store_view_eq(&av.stores[0], &an.stores[0]) && store_view_eq(&av.stores[1], &an.stores[1]) && an.cnt == av.cnt);
    reach!("s_fence_acq");
}

crate::with_fire_forbidden! {
//@ props=C02,C03,C04 tier=quick timeout=1500 fns=src/rt/atomic.rs::fence_acq,src/rt/atomic.rs::State::stores_mut,src/rt/atomic.rs::range,src/rt/object.rs::Store::iter_mut bounded=threads:N=2,atomics:1,live_stores:2 models=VersionVec::join=s_vv_models_agree,FirstSeen::is_seen_by_current=s_firstseen
#[kani::proof]
#[kani::unwind(12)]
fn s_fence_acq__outside() {
    fence_acq_body(false);
}
}

crate::with_fire_forbidden! {
//@ props=C02 tier=quick timeout=1500 fns=src/rt/atomic.rs::fence_acq bounded=threads:N=2,atomics:1,live_stores:2 finding=F2 expect=C02.fence_acq.synchronises_with_nothing_else
#[kani::proof]
#[kani::unwind(12)]
fn s_fence_acq__inside() {
    fence_acq_body(true);
}
}

crate::with_fire_forbidden! {
//@ props=C02,C03 tier=quick fns=src/rt/atomic.rs::fence_rel,src/rt/atomic.rs::fence_seqcst,src/rt/atomic.rs::fence_acqrel,src/rt/thread.rs::Set::seq_cst_fence bounded=threads:N=2,atomics:0 models=VersionVec::join=s_vv_models_agree
#[kani::proof]
#[kani::unwind(12)]
fn s_fence_rel_and_seqcst() {
    let set = any_set(2);
    let mut ex = crate::rt::execution::verif_kani::exec_with(ManuallyDrop::into_inner(set), 4);
    let old = set_view(&ex.threads);
    let a = old.active.unwrap();
    let oa = old.th[a];
    if kani::any() {
        fence_rel(&mut ex);
        let new = set_view(&ex.threads);
        let na = new.th[a];
        oblige!("S.fence_rel.release_view_is_a_snapshot_of_current_view", vv_eq(&na.released, &oa.causality) && vv_eq(&na.causality, &oa.causality));
        let (oo, no) = (old.th[1 - a], new.th[1 - a]);
        oblige!("S.fence_rel.frame", th_view_eq(&oo, &no) && vv_eq(&new.seq_cst, &old.seq_cst));
    } else {
        // no atomics in the store: the acquire part is a no-op; the SC part totally orders SC fences
        fence_seqcst(&mut ex);
        let new = set_view(&ex.threads);
        let na = new.th[a];
        let want_c = join_of(&oa.causality, &old.seq_cst);
        oblige!("C03.fence_seqcst.acquires_every_earlier_sc_fence", vv_eq(&na.causality, &want_c));
        oblige!("C03.fence_seqcst.publishes_to_every_later_sc_fence", vv_eq(&new.seq_cst, &want_c));
        oblige!("S.fence_seqcst.also_a_release_fence", vv_eq(&na.released, &oa.causality) || vv_eq(&na.released, &want_c));
        let (oo, no) = (old.th[1 - a], new.th[1 - a]);
        oblige!("S.fence_seqcst.frame", th_view_eq(&oo, &no));
    }
    reach!("s_fence_rel_and_seqcst");
}
}

// ---- State::rmw (general): value, per-path synchronisation, release sequence ---------------------------

fn rmw_general_body(idx: usize) {
    let mut set = any_set(2);
    crate::rt::thread::verif_kani::assume_incrementable(&set);
    let a = crate::rt::thread::verif_kani::active_index(&set).unwrap();
    let th = crate::rt::thread::verif_kani::th_view(thread_at(&set, a));
    let mut st = any_atomic_state();
    st.cnt = 4;
    kani::assume(!st.is_mutating && vv_le(&st.unsync_mut_at, &th.causality) && vv_le(&st.unsync_loaded_at, &th.causality));
    let old = atomic_view(&st);
    // validity: a thread's own first-seen stamps lie in its own past
    {
        let mut i = 0;
        while i < H {
            let own = if a == 0 { old.stores[i].first_seen[0] } else { old.stores[i].first_seen[1] };
            kani::assume(own == u16::MAX || own <= vv_get(&th.causality, a));
            i += 1;
        }
    }
    let (so, fo) = (any_order(), any_order());
    let next: u64 = kani::any();
    let fail: bool = kani::any();
    let r = rmw_at(&mut st, &mut set, idx, so, fo, |p| if fail { Err(p) } else { Ok(next) });
    let new = atomic_view(&st);
    let nt = crate::rt::thread::verif_kani::th_view(thread_at(&set, a));
    let read = old.stores[idx];
    if fail {
        // C02: only the FAILURE ordering synchronises on the failure path
        let want_c = if crate::rt::synchronize::verif_kani::acquires(fo) { join_of(&th.causality, &read.sync) } else { th.causality };
        oblige!("C02.rmw.failure_path_acquires_exactly_per_failure_ordering", vv_eq(&nt.causality, &want_c));
        oblige!("C03.rmw.failure_stores_nothing", r == Err(read.value) && new.cnt == old.cnt && values_unchanged(&old, &new));
    } else {
        let want_c = if crate::rt::synchronize::verif_kani::acquires(so) { join_of(&th.causality, &read.sync) } else { th.causality };
        let ns = new.stores[4];
        oblige!("C03.rmw.success_returns_value_read_and_writes_new_value", r == Ok(read.value) && ns.value == next && new.cnt == old.cnt + 1);
        oblige!("C02.rmw.success_path_acquires_exactly_per_success_ordering", vv_eq(&nt.causality, &want_c));
        // release sequence: the new store carries the release view of the store it read, whatever the RMW's ordering
        let mut want_sync = join_of(&read.sync, &th.released);
        if crate::rt::synchronize::verif_kani::releases(so) {
            want_sync = join_of(&want_sync, &want_c);
        }
        oblige!("C03.rmw.release_sequence_continues_through_the_rmw", vv_le(&read.sync, &ns.sync));
        oblige!("C03.rmw.new_store_release_view_is_exact", vv_eq(&ns.sync, &want_sync));
        oblige!("C03.rmw.new_store_is_mo_after_the_store_read", vv_le(&new.stores[idx].mo, &ns.mo));
    }
    oblige!("C02.nosync.rmw_changes_nothing_else_of_the_thread", crate::rt::thread::verif_kani::th_view_eq_except_causality(&th, &nt));
    reach!("c03_rmw_general");
}

crate::with_fire_forbidden! {
//@ props=C02,C03 tier=quick timeout=1500 fns=src/rt/atomic.rs::State::rmw bounded=threads:N=2,cnt:4,read_index:3 models=VersionVec::join=s_vv_models_agree,FirstSeen::is_seen_by_current=s_firstseen
#[kani::proof]
#[kani::unwind(12)]
fn c03_rmw_general_i3() {
    rmw_general_body(3);
}
}

crate::with_fire_forbidden! {
//@ props=C02,C03 tier=thorough timeout=3000 fns=src/rt/atomic.rs::State::rmw bounded=threads:N=2,cnt:4,read_index:0|3 models=VersionVec::join=s_vv_models_agree,FirstSeen::is_seen_by_current=s_firstseen
#[kani::proof]
#[kani::unwind(12)]
fn c03_rmw_general() {
    if kani::any() { rmw_general_body(0) } else { rmw_general_body(3) }
}
}
