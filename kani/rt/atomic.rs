//! Contracts for `rt::atomic` (child module of `rt::atomic`).
use super::*;
use crate::{must_not_reach, oblige, reach};

// ================================================================================================
// C12: the sequential-cell contract model of `rt::Atomic<T>` used by the wrapper-layer harnesses.
// One atomic per harness: a ghost u64 cell.  Justified by the C12.cell.* harnesses below, which
// prove that the real rt::Atomic<T> operations refine exactly this model in a one-thread execution.
// ================================================================================================

pub(crate) static mut CELL: u64 = 0;
pub(crate) static mut CELL_MUTATING: bool = false;

pub(crate) fn cell() -> u64 {
    unsafe { CELL }
}

impl<T: Numeric> Atomic<T> {
    pub(crate) fn new_model(value: T, _location: Location) -> Atomic<T> {
        unsafe {
            CELL = value.into_u64();
            CELL_MUTATING = false;
        }
        Atomic { state: object::Ref::from_usize(0).downcast_unchecked(), _p: PhantomData }
    }

    pub(crate) fn load_model(&self, _location: Location, _ordering: Ordering) -> T {
        assert!(!unsafe { CELL_MUTATING });
        T::from_u64(unsafe { CELL })
    }

    pub(crate) fn unsync_load_model(&self, _location: Location) -> T {
        assert!(!unsafe { CELL_MUTATING });
        T::from_u64(unsafe { CELL })
    }

    pub(crate) fn store_model(&self, _location: Location, val: T, _ordering: Ordering) {
        assert!(!unsafe { CELL_MUTATING });
        unsafe {
            CELL = val.into_u64();
        }
    }

    pub(crate) fn rmw_model<F, E>(&self, _l: Location, _success: Ordering, _failure: Ordering, f: F) -> Result<T, E>
    where
        F: FnOnce(T) -> Result<T, E>,
    {
        assert!(!unsafe { CELL_MUTATING });
        let prev = unsafe { CELL };
        match f(T::from_u64(prev)) {
            Ok(next) => {
                unsafe {
                    CELL = next.into_u64();
                }
                Ok(T::from_u64(prev))
            }
            Err(e) => Err(e),
        }
    }

    pub(crate) fn with_mut_model<R>(&mut self, _location: Location, f: impl FnOnce(&mut T) -> R) -> R {
        assert!(!unsafe { CELL_MUTATING });
        unsafe {
            CELL_MUTATING = true;
        }
        let mut v = T::from_u64(unsafe { CELL });
        let r = f(&mut v);
        unsafe {
            CELL = v.into_u64();
            CELL_MUTATING = false;
        }
        r
    }
}

// ================================================================================================
// Views, generators and validity predicates for `atomic::State`
// ================================================================================================
use crate::rt::synchronize::verif_kani::{any_order, any_sync, hb as sync_hb, sync_with};
use crate::rt::thread::verif_kani::{any_set, set_view, th_view_eq, thread_at, wf_set, SetView};
use crate::rt::vv::verif_kani::{any_vv, eq as vv_eq, get as vv_get, is_join, join_of, le as vv_le, zero_vv};
use std::mem::ManuallyDrop;

pub(crate) const H: usize = MAX_ATOMIC_HISTORY;

#[derive(Clone, Copy)]
pub(crate) struct StoreView {
    pub value: u64,
    pub hb: VersionVec,
    pub mo: VersionVec,
    pub sync: VersionVec,
    pub first_seen: [u16; MAX_THREADS],
    pub seq_cst: bool,
}

#[derive(Clone, Copy)]
pub(crate) struct AtomicView {
    pub cnt: u16,
    pub stores: [StoreView; H],
    pub loaded_at: VersionVec,
    pub unsync_loaded_at: VersionVec,
    pub stored_at: VersionVec,
    pub unsync_mut_at: VersionVec,
    pub is_mutating: bool,
}

pub(crate) fn store_view(s: &Store) -> StoreView {
    StoreView {
        value: s.value,
        hb: s.happens_before,
        mo: s.modification_order,
        sync: sync_hb(&s.sync),
        first_seen: s.first_seen.0,
        seq_cst: s.seq_cst,
    }
}

pub(crate) fn atomic_view(s: &State) -> AtomicView {
    let z = store_view(&s.stores[0]);
    let mut stores = [z; H];
    let mut i = 0;
    while i < H {
        stores[i] = store_view(&s.stores[i]);
        i += 1;
    }
    AtomicView {
        cnt: s.cnt,
        stores,
        loaded_at: s.loaded_at,
        unsync_loaded_at: s.unsync_loaded_at,
        stored_at: s.stored_at,
        unsync_mut_at: s.unsync_mut_at,
        is_mutating: s.is_mutating,
    }
}

pub(crate) fn store_view_eq(a: &StoreView, b: &StoreView) -> bool {
    let mut fs = true;
    let mut i = 0;
    while i < MAX_THREADS {
        if a.first_seen[i] != b.first_seen[i] {
            fs = false;
        }
        i += 1;
    }
    fs && a.value == b.value && vv_eq(&a.hb, &b.hb) && vv_eq(&a.mo, &b.mo) && vv_eq(&a.sync, &b.sync) && a.seq_cst == b.seq_cst
}

pub(crate) fn any_store() -> Store {
    Store {
        value: kani::any(),
        happens_before: any_vv(),
        modification_order: any_vv(),
        sync: any_sync(),
        first_seen: FirstSeen(kani::any()),
        seq_cst: kani::any(),
    }
}

/// Fully symbolic atomic state (ring content, counters, race clocks). `is_mutating` false,
/// no DPOR accesses recorded (harnesses that need them set them).
pub(crate) fn any_atomic_state() -> State {
    State {
        created_location: Location::disabled(),
        loaded_at: any_vv(),
        loaded_locations: LocationSet::new(),
        unsync_loaded_at: any_vv(),
        unsync_loaded_locations: LocationSet::new(),
        stored_at: any_vv(),
        stored_locations: LocationSet::new(),
        unsync_mut_at: any_vv(),
        unsync_mut_locations: LocationSet::new(),
        is_mutating: false,
        last_access: None,
        last_non_load_access: None,
        stores: [any_store(), any_store(), any_store(), any_store(), any_store(), any_store(), any_store()],
        cnt: kani::any(),
    }
}

/// Slot `i` holds a real store.
pub(crate) fn live(cnt: u16, i: usize) -> bool {
    i < H && (i as u16) < cnt
}

pub(crate) fn newest(cnt: u16) -> usize {
    (cnt.wrapping_sub(1)) as usize % H
}

/// Rank of live slot `i` from the oldest live store (0) to the newest.
pub(crate) fn age_rank(cnt: u16, i: usize) -> usize {
    let oldest = if (cnt as usize) >= H { (cnt as usize) % H } else { 0 };
    (i + H - oldest) % H
}

pub(crate) fn vv_lt(a: &VersionVec, b: &VersionVec) -> bool {
    vv_le(a, b) && !vv_eq(a, b)
}

/// `wf_single`: the invariant of an atomic that only thread 0 of a one-thread execution has ever
/// touched (C12.seq).  `c` is thread 0's causality.
pub(crate) fn wf_single(v: &AtomicView, c: &VersionVec) -> bool {
    let mut ok = v.cnt >= 1 && !v.is_mutating;
    ok = ok && vv_le(&v.loaded_at, c) && vv_le(&v.unsync_loaded_at, c) && vv_le(&v.stored_at, c) && vv_le(&v.unsync_mut_at, c);
    let mut i = 0;
    while i < H {
        if live(v.cnt, i) {
            // every store is in thread 0's past and has been seen by thread 0
            ok = ok && vv_le(&v.stores[i].mo, c) && vv_le(&v.stores[i].hb, c) && vv_le(&v.stores[i].sync, c) && v.stores[i].first_seen[0] != u16::MAX && v.stores[i].first_seen[0] <= vv_get(c, 0);
            let mut j = 0;
            while j < H {
                if live(v.cnt, j) && age_rank(v.cnt, i) < age_rank(v.cnt, j) {
                    // modification order follows program order, strictly
                    ok = ok && vv_lt(&v.stores[i].mo, &v.stores[j].mo);
                }
                j += 1;
            }
        } else {
            ok = ok && slot_is_default(&v.stores[i]);
        }
        i += 1;
    }
    ok
}

/// A ring slot that has never held a store is as `Store::default()` left it: never seen by
/// anyone, zero clocks (so the coherence joins over *all* slots are no-ops for it).
pub(crate) fn slot_is_default(s: &StoreView) -> bool {
    let mut ok = vv_eq(&s.mo, &zero_vv()) && vv_eq(&s.hb, &zero_vv()) && vv_eq(&s.sync, &zero_vv()) && !s.seq_cst && s.value == 0;
    let mut t = 0;
    while t < MAX_THREADS {
        ok = ok && s.first_seen[t] == u16::MAX;
        t += 1;
    }
    ok
}

/// "The clock has ticked since the last operation" (established by `rt::synchronize`).
pub(crate) fn ticked(v: &AtomicView, c: &VersionVec) -> bool {
    let mut ok = true;
    let mut i = 0;
    while i < H {
        if live(v.cnt, i) {
            ok = ok && vv_get(&v.stores[i].mo, 0) < vv_get(c, 0);
        }
        i += 1;
    }
    ok
}

pub(crate) fn values_unchanged(a: &AtomicView, b: &AtomicView) -> bool {
    let mut ok = true;
    let mut i = 0;
    while i < H {
        if a.stores[i].value != b.stores[i].value {
            ok = false;
        }
        i += 1;
    }
    ok
}

// ================================================================================================
// C12.cell: in a one-thread execution rt::atomic::State is a sequential cell
//
// The ring phase is fixed per harness instance so that the structure of `wf_single` is concrete:
//   * partial instances:  cnt = K concrete (1..=6): slots 0..K-1 live, newest = K-1
//   * wrapped instances:  cnt symbolic with cnt >= 7 and cnt % 7 == K (K = 0..=6): all slots live,
//                         oldest slot = K, newest = (K+6) % 7
// Together the 13 instances cover every cnt in 1..u16::MAX (complete, no bound on the number of
// operations performed so far).
// ================================================================================================

/// cnt for an instance: `full == false` => exactly `k`; `full == true` => any cnt >= 7 with cnt % 7 == k.
pub(crate) fn cnt_for(k: usize, full: bool) -> u16 {
    if full {
        let c: u16 = kani::any();
        kani::assume(c >= H as u16 && (c as usize) % H == k);
        c
    } else {
        k as u16
    }
}

pub(crate) fn newest_for(k: usize) -> usize {
    (k + H - 1) % H
}

/// `wf_single` with the ring phase given concretely (equivalent to `wf_single` when
/// `cnt == cnt_for(k, full)`; the equivalence is itself obliged in `c12_cell_wf_forms_agree_*`).
pub(crate) fn wf_single_k(v: &AtomicView, c: &VersionVec, k: usize, full: bool) -> bool {
    let mut ok = !v.is_mutating;
    ok = ok && vv_le(&v.loaded_at, c) && vv_le(&v.unsync_loaded_at, c) && vv_le(&v.stored_at, c) && vv_le(&v.unsync_mut_at, c);
    let oldest = if full { k } else { 0 };
    let nlive = if full { H } else { k };
    let mut i = 0;
    while i < H {
        let ri = (i + H - oldest) % H;
        if ri < nlive {
            ok = ok && vv_le(&v.stores[i].mo, c) && vv_le(&v.stores[i].hb, c) && vv_le(&v.stores[i].sync, c)
                && v.stores[i].first_seen[0] != u16::MAX && v.stores[i].first_seen[0] <= vv_get(c, 0);
            let mut j = 0;
            while j < H {
                let rj = (j + H - oldest) % H;
                if rj < nlive && ri < rj {
                    ok = ok && vv_lt(&v.stores[i].mo, &v.stores[j].mo);
                }
                j += 1;
            }
        } else {
            ok = ok && slot_is_default(&v.stores[i]);
        }
        i += 1;
    }
    ok
}

pub(crate) fn ticked_k(v: &AtomicView, c: &VersionVec, k: usize, full: bool) -> bool {
    let mut ok = true;
    let mut i = 0;
    while i < H {
        if full || i < k {
            ok = ok && vv_get(&v.stores[i].mo, 0) < vv_get(c, 0);
        }
        i += 1;
    }
    ok
}

crate::with_fire_forbidden! {
//@ props=C12,C03 tier=quick fns=src/rt/atomic.rs::State::new,src/rt/atomic.rs::State::store,src/rt/atomic.rs::State::track_unsync_mut models=VersionVec::join=s_vv_models_agree,VersionVec::ahead=s_vv_models_agree,FirstSeen::is_seen_by_current=s_firstseen
#[kani::proof]
#[kani::unwind(9)]
fn c12_cell_state_new() {
    let mut set = any_set(1);
    crate::rt::thread::verif_kani::assume_incrementable(&set);
    kani::assume(crate::rt::thread::verif_kani::wf_thread_clocks(&set));
    let v: u64 = kani::any();
    let old = set_view(&set);
    let st = State::new(&mut set, v, Location::disabled());
    let av = atomic_view(&st);
    oblige!("C12.cell.new.one_store_holding_value", av.cnt == 1 && av.stores[0].value == v);
    oblige!("C12.cell.new.establishes_wf_single", wf_single_k(&av, &old.th[0].causality, 1, false));
    let new = set_view(&set);
    oblige!("C12.cell.new.thread_unchanged", th_view_eq(&old.th[0], &new.th[0]));
    reach!("c12_cell_state_new");
}
}

/// `State::load` / `State::rmw` take the ring index as an argument; it is kept path-concrete
/// (CBMC 6.11 mis-resolves `&arr[sym].field`, DESIGN §9): one call site per slot.
fn load_at(st: &mut State, set: &mut thread::Set, idx: usize, o: Ordering) -> u64 {
    match idx {
        0 => st.load(set, 0, Location::disabled(), o),
        1 => st.load(set, 1, Location::disabled(), o),
        2 => st.load(set, 2, Location::disabled(), o),
        3 => st.load(set, 3, Location::disabled(), o),
        4 => st.load(set, 4, Location::disabled(), o),
        5 => st.load(set, 5, Location::disabled(), o),
        _ => st.load(set, 6, Location::disabled(), o),
    }
}

fn rmw_at<E>(st: &mut State, set: &mut thread::Set, idx: usize, s: Ordering, f: Ordering, g: impl FnOnce(u64) -> Result<u64, E>) -> Result<u64, E> {
    let l = Location::disabled();
    match idx {
        0 => st.rmw(set, 0, l, s, f, g),
        1 => st.rmw(set, 1, l, s, f, g),
        2 => st.rmw(set, 2, l, s, f, g),
        3 => st.rmw(set, 3, l, s, f, g),
        4 => st.rmw(set, 4, l, s, f, g),
        5 => st.rmw(set, 5, l, s, f, g),
        _ => st.rmw(set, 6, l, s, f, g),
    }
}

macro_rules! c12_cell_instances {
    ($store:ident, $load:ident, $rmw:ident, $matchh:ident, $k:expr, $full:expr) => {
        crate::with_fire_forbidden! {
        #[kani::proof]
        #[kani::unwind(12)]
        fn $store() {
            let mut set = any_set(1);
            crate::rt::thread::verif_kani::assume_incrementable(&set);
            kani::assume(crate::rt::thread::verif_kani::wf_thread_clocks(&set));
    kani::assume(crate::rt::thread::verif_kani::wf_thread_clocks(&set));
            let mut st = any_atomic_state();
            st.cnt = cnt_for($k, $full);
            let c = thread_at(&set, 0).causality;
            let old = atomic_view(&st);
            kani::assume(wf_single_k(&old, &c, $k, $full) && ticked_k(&old, &c, $k, $full) && old.cnt < u16::MAX);
            let v: u64 = kani::any();
            let o = any_order();
            st.store(&mut set, Synchronize::new(), v, o);
            let new = atomic_view(&st);
            let slot = $k % H;
            oblige!("C12.cell.store.count_plus_one", new.cnt == old.cnt + 1);
            oblige!("C12.cell.store.writes_value_in_next_slot", new.stores[slot].value == v);
            let mut i = 0;
            while i < H {
                oblige!("C12.cell.store.other_slots_untouched", i == slot || store_view_eq(&old.stores[i], &new.stores[i]));
                i += 1;
            }
            // phase after the store: (k+1, still partial) / (7 => wrapped with k' = 0) / wrapped k' = k+1
            let (k2, full2) = if $full { (($k + 1) % H, true) } else if $k + 1 == H { (0, true) } else { ($k + 1, false) };
            oblige!("C12.cell.store.preserves_wf_single", wf_single_k(&new, &c, k2, full2));
            oblige!("C12.cell.store.thread_clock_unchanged", vv_eq(&thread_at(&set, 0).causality, &c));
            reach!("c12_cell_state_store");
        }
        }

        crate::with_fire_forbidden! {
        #[kani::proof]
        #[kani::unwind(12)]
        fn $load() {
            let mut set = any_set(1);
            crate::rt::thread::verif_kani::assume_incrementable(&set);
            kani::assume(crate::rt::thread::verif_kani::wf_thread_clocks(&set));
    kani::assume(crate::rt::thread::verif_kani::wf_thread_clocks(&set));
            let mut st = any_atomic_state();
            st.cnt = cnt_for($k, $full);
            let c = thread_at(&set, 0).causality;
            let old = atomic_view(&st);
            kani::assume(wf_single_k(&old, &c, $k, $full) && ticked_k(&old, &c, $k, $full));
            let n = newest_for($k);
            let o = any_order();
            let r = load_at(&mut st, &mut set, n, o);
            let new = atomic_view(&st);
            let c2 = thread_at(&set, 0).causality;
            oblige!("C12.cell.load.returns_newest_value", r == old.stores[n].value);
            oblige!("C12.cell.load.content_unchanged", new.cnt == old.cnt && values_unchanged(&old, &new));
            oblige!("C12.cell.load.preserves_wf_single", wf_single_k(&new, &c2, $k, $full));
            oblige!("C12.cell.load.still_ticked", ticked_k(&new, &c2, $k, $full));
            reach!("c12_cell_state_load");
        }
        }

        crate::with_fire_forbidden! {
        #[kani::proof]
        #[kani::unwind(12)]
        fn $rmw() {
            let mut set = any_set(1);
            crate::rt::thread::verif_kani::assume_incrementable(&set);
            kani::assume(crate::rt::thread::verif_kani::wf_thread_clocks(&set));
    kani::assume(crate::rt::thread::verif_kani::wf_thread_clocks(&set));
            let mut st = any_atomic_state();
            st.cnt = cnt_for($k, $full);
            let c = thread_at(&set, 0).causality;
            let old = atomic_view(&st);
            kani::assume(wf_single_k(&old, &c, $k, $full) && ticked_k(&old, &c, $k, $full) && old.cnt < u16::MAX);
            let n = newest_for($k);
            let so = any_order();
            let fo = any_order();
            let next: u64 = kani::any();
            let fail: bool = kani::any();
            let mut seen_by_f: u64 = 0;
            let r = rmw_at(&mut st, &mut set, n, so, fo, |p| {
                seen_by_f = p;
                if fail { Err(p) } else { Ok(next) }
            });
            let new = atomic_view(&st);
            let c2 = thread_at(&set, 0).causality;
            oblige!("C12.cell.rmw.closure_sees_newest_value", seen_by_f == old.stores[n].value);
            if fail {
                oblige!("C12.cell.rmw.err_passes_through_and_stores_nothing",
                    r == Err(old.stores[n].value) && new.cnt == old.cnt && values_unchanged(&old, &new));
                oblige!("C12.cell.rmw.preserves_wf_single", wf_single_k(&new, &c2, $k, $full));
            } else {
                let slot = $k % H;
                let (k2, full2) = if $full { (($k + 1) % H, true) } else if $k + 1 == H { (0, true) } else { ($k + 1, false) };
                oblige!("C12.cell.rmw.ok_returns_previous_value", r == Ok(old.stores[n].value));
                oblige!("C12.cell.rmw.ok_appends_new_value", new.cnt == old.cnt + 1 && new.stores[slot].value == next);
                oblige!("C12.cell.rmw.preserves_wf_single", wf_single_k(&new, &c2, k2, full2));
            }
            reach!("c12_cell_state_rmw");
        }
        }

        #[kani::proof]
        #[kani::unwind(12)]
        #[kani::stub(std::hash::RandomState::new, crate::rt::thread::verif_kani::fixed_random_state)]
        #[kani::stub(crate::rt::atomic::FirstSeen::is_seen_by_current, crate::rt::atomic::FirstSeen::is_seen_by_current_model)]
        fn $matchh() {
            let set = any_set(1);
            crate::rt::thread::verif_kani::assume_incrementable(&set);
            kani::assume(crate::rt::thread::verif_kani::wf_thread_clocks(&set));
    kani::assume(crate::rt::thread::verif_kani::wf_thread_clocks(&set));
            let mut st = any_atomic_state();
            st.cnt = cnt_for($k, $full);
            let c = thread_at(&set, 0).causality;
            let v = atomic_view(&st);
            kani::assume(wf_single_k(&v, &c, $k, $full));
            oblige!("C12.seq.newest_slot_is_index_of_cnt_minus_1", index(st.cnt - 1) == newest_for($k));
            let o = any_order();
            let mut seed = [0u8; H];
            let n = st.match_load_to_stores(&set, &mut seed[..], o);
            oblige!("C12.seq.load_candidates_are_exactly_the_newest_store", n == 1 && seed[0] as usize == newest_for($k));
            let mut seed2 = [0u8; H];
            let n2 = st.match_rmw_to_stores(&mut seed2[..]);
            oblige!("C12.seq.rmw_candidates_are_exactly_the_newest_store", n2 == 1 && seed2[0] as usize == newest_for($k));
            reach!("c12_cell_match_single");
        }
    };
}

//@ name=c12_cell_store_p1 props=C12,C03 tier=quick fns=src/rt/atomic.rs::State::store,src/rt/atomic.rs::index models=VersionVec::join=s_vv_models_agree,VersionVec::ahead=s_vv_models_agree,FirstSeen::is_seen_by_current=s_firstseen
//@ name=c12_cell_load_p1 props=C12,C03 tier=quick fns=src/rt/atomic.rs::State::load,src/rt/atomic.rs::State::apply_load_coherence,src/rt/atomic.rs::State::track_load models=VersionVec::join=s_vv_models_agree,VersionVec::ahead=s_vv_models_agree,FirstSeen::is_seen_by_current=s_firstseen
//@ name=c12_cell_rmw_p1 props=C12,C03 tier=quick fns=src/rt/atomic.rs::State::rmw,src/rt/atomic.rs::State::track_store models=VersionVec::join=s_vv_models_agree,VersionVec::ahead=s_vv_models_agree,FirstSeen::is_seen_by_current=s_firstseen
//@ name=c12_cell_match_p1 props=C12,C03 tier=quick fns=src/rt/atomic.rs::State::match_load_to_stores,src/rt/atomic.rs::State::match_rmw_to_stores models=VersionVec::join=s_vv_models_agree,VersionVec::ahead=s_vv_models_agree,FirstSeen::is_seen_by_current=s_firstseen
c12_cell_instances!(c12_cell_store_p1, c12_cell_load_p1, c12_cell_rmw_p1, c12_cell_match_p1, 1, false);
//@ name=c12_cell_store_p2 props=C12,C03 tier=thorough fns=src/rt/atomic.rs::State::store,src/rt/atomic.rs::index models=VersionVec::join=s_vv_models_agree,VersionVec::ahead=s_vv_models_agree,FirstSeen::is_seen_by_current=s_firstseen
//@ name=c12_cell_load_p2 props=C12,C03 tier=thorough fns=src/rt/atomic.rs::State::load,src/rt/atomic.rs::State::apply_load_coherence,src/rt/atomic.rs::State::track_load models=VersionVec::join=s_vv_models_agree,VersionVec::ahead=s_vv_models_agree,FirstSeen::is_seen_by_current=s_firstseen
//@ name=c12_cell_rmw_p2 props=C12,C03 tier=thorough fns=src/rt/atomic.rs::State::rmw,src/rt/atomic.rs::State::track_store models=VersionVec::join=s_vv_models_agree,VersionVec::ahead=s_vv_models_agree,FirstSeen::is_seen_by_current=s_firstseen
//@ name=c12_cell_match_p2 props=C12,C03 tier=thorough fns=src/rt/atomic.rs::State::match_load_to_stores,src/rt/atomic.rs::State::match_rmw_to_stores models=VersionVec::join=s_vv_models_agree,VersionVec::ahead=s_vv_models_agree,FirstSeen::is_seen_by_current=s_firstseen
c12_cell_instances!(c12_cell_store_p2, c12_cell_load_p2, c12_cell_rmw_p2, c12_cell_match_p2, 2, false);
//@ name=c12_cell_store_p3 props=C12,C03 tier=quick fns=src/rt/atomic.rs::State::store,src/rt/atomic.rs::index models=VersionVec::join=s_vv_models_agree,VersionVec::ahead=s_vv_models_agree,FirstSeen::is_seen_by_current=s_firstseen
//@ name=c12_cell_load_p3 props=C12,C03 tier=quick fns=src/rt/atomic.rs::State::load,src/rt/atomic.rs::State::apply_load_coherence,src/rt/atomic.rs::State::track_load models=VersionVec::join=s_vv_models_agree,VersionVec::ahead=s_vv_models_agree,FirstSeen::is_seen_by_current=s_firstseen
//@ name=c12_cell_rmw_p3 props=C12,C03 tier=quick fns=src/rt/atomic.rs::State::rmw,src/rt/atomic.rs::State::track_store models=VersionVec::join=s_vv_models_agree,VersionVec::ahead=s_vv_models_agree,FirstSeen::is_seen_by_current=s_firstseen
//@ name=c12_cell_match_p3 props=C12,C03 tier=quick fns=src/rt/atomic.rs::State::match_load_to_stores,src/rt/atomic.rs::State::match_rmw_to_stores models=VersionVec::join=s_vv_models_agree,VersionVec::ahead=s_vv_models_agree,FirstSeen::is_seen_by_current=s_firstseen
c12_cell_instances!(c12_cell_store_p3, c12_cell_load_p3, c12_cell_rmw_p3, c12_cell_match_p3, 3, false);
//@ name=c12_cell_store_p4 props=C12,C03 tier=thorough fns=src/rt/atomic.rs::State::store,src/rt/atomic.rs::index models=VersionVec::join=s_vv_models_agree,VersionVec::ahead=s_vv_models_agree,FirstSeen::is_seen_by_current=s_firstseen
//@ name=c12_cell_load_p4 props=C12,C03 tier=thorough fns=src/rt/atomic.rs::State::load,src/rt/atomic.rs::State::apply_load_coherence,src/rt/atomic.rs::State::track_load models=VersionVec::join=s_vv_models_agree,VersionVec::ahead=s_vv_models_agree,FirstSeen::is_seen_by_current=s_firstseen
//@ name=c12_cell_rmw_p4 props=C12,C03 tier=thorough fns=src/rt/atomic.rs::State::rmw,src/rt/atomic.rs::State::track_store models=VersionVec::join=s_vv_models_agree,VersionVec::ahead=s_vv_models_agree,FirstSeen::is_seen_by_current=s_firstseen
//@ name=c12_cell_match_p4 props=C12,C03 tier=thorough fns=src/rt/atomic.rs::State::match_load_to_stores,src/rt/atomic.rs::State::match_rmw_to_stores models=VersionVec::join=s_vv_models_agree,VersionVec::ahead=s_vv_models_agree,FirstSeen::is_seen_by_current=s_firstseen
c12_cell_instances!(c12_cell_store_p4, c12_cell_load_p4, c12_cell_rmw_p4, c12_cell_match_p4, 4, false);
//@ name=c12_cell_store_p5 props=C12,C03 tier=thorough fns=src/rt/atomic.rs::State::store,src/rt/atomic.rs::index models=VersionVec::join=s_vv_models_agree,VersionVec::ahead=s_vv_models_agree,FirstSeen::is_seen_by_current=s_firstseen
//@ name=c12_cell_load_p5 props=C12,C03 tier=thorough fns=src/rt/atomic.rs::State::load,src/rt/atomic.rs::State::apply_load_coherence,src/rt/atomic.rs::State::track_load models=VersionVec::join=s_vv_models_agree,VersionVec::ahead=s_vv_models_agree,FirstSeen::is_seen_by_current=s_firstseen
//@ name=c12_cell_rmw_p5 props=C12,C03 tier=thorough fns=src/rt/atomic.rs::State::rmw,src/rt/atomic.rs::State::track_store models=VersionVec::join=s_vv_models_agree,VersionVec::ahead=s_vv_models_agree,FirstSeen::is_seen_by_current=s_firstseen
//@ name=c12_cell_match_p5 props=C12,C03 tier=thorough fns=src/rt/atomic.rs::State::match_load_to_stores,src/rt/atomic.rs::State::match_rmw_to_stores models=VersionVec::join=s_vv_models_agree,VersionVec::ahead=s_vv_models_agree,FirstSeen::is_seen_by_current=s_firstseen
c12_cell_instances!(c12_cell_store_p5, c12_cell_load_p5, c12_cell_rmw_p5, c12_cell_match_p5, 5, false);
//@ name=c12_cell_store_p6 props=C12,C03 tier=quick fns=src/rt/atomic.rs::State::store,src/rt/atomic.rs::index models=VersionVec::join=s_vv_models_agree,VersionVec::ahead=s_vv_models_agree,FirstSeen::is_seen_by_current=s_firstseen
//@ name=c12_cell_load_p6 props=C12,C03 tier=quick fns=src/rt/atomic.rs::State::load,src/rt/atomic.rs::State::apply_load_coherence,src/rt/atomic.rs::State::track_load models=VersionVec::join=s_vv_models_agree,VersionVec::ahead=s_vv_models_agree,FirstSeen::is_seen_by_current=s_firstseen
//@ name=c12_cell_rmw_p6 props=C12,C03 tier=quick fns=src/rt/atomic.rs::State::rmw,src/rt/atomic.rs::State::track_store models=VersionVec::join=s_vv_models_agree,VersionVec::ahead=s_vv_models_agree,FirstSeen::is_seen_by_current=s_firstseen
//@ name=c12_cell_match_p6 props=C12,C03 tier=quick fns=src/rt/atomic.rs::State::match_load_to_stores,src/rt/atomic.rs::State::match_rmw_to_stores models=VersionVec::join=s_vv_models_agree,VersionVec::ahead=s_vv_models_agree,FirstSeen::is_seen_by_current=s_firstseen
c12_cell_instances!(c12_cell_store_p6, c12_cell_load_p6, c12_cell_rmw_p6, c12_cell_match_p6, 6, false);
//@ name=c12_cell_store_w0 props=C12,C03 tier=quick fns=src/rt/atomic.rs::State::store,src/rt/atomic.rs::index models=VersionVec::join=s_vv_models_agree,VersionVec::ahead=s_vv_models_agree,FirstSeen::is_seen_by_current=s_firstseen
//@ name=c12_cell_load_w0 props=C12,C03 tier=quick fns=src/rt/atomic.rs::State::load,src/rt/atomic.rs::State::apply_load_coherence,src/rt/atomic.rs::State::track_load models=VersionVec::join=s_vv_models_agree,VersionVec::ahead=s_vv_models_agree,FirstSeen::is_seen_by_current=s_firstseen
//@ name=c12_cell_rmw_w0 props=C12,C03 tier=quick fns=src/rt/atomic.rs::State::rmw,src/rt/atomic.rs::State::track_store models=VersionVec::join=s_vv_models_agree,VersionVec::ahead=s_vv_models_agree,FirstSeen::is_seen_by_current=s_firstseen
//@ name=c12_cell_match_w0 props=C12,C03 tier=quick fns=src/rt/atomic.rs::State::match_load_to_stores,src/rt/atomic.rs::State::match_rmw_to_stores models=VersionVec::join=s_vv_models_agree,VersionVec::ahead=s_vv_models_agree,FirstSeen::is_seen_by_current=s_firstseen
c12_cell_instances!(c12_cell_store_w0, c12_cell_load_w0, c12_cell_rmw_w0, c12_cell_match_w0, 0, true);
//@ name=c12_cell_store_w1 props=C12,C03 tier=thorough fns=src/rt/atomic.rs::State::store,src/rt/atomic.rs::index models=VersionVec::join=s_vv_models_agree,VersionVec::ahead=s_vv_models_agree,FirstSeen::is_seen_by_current=s_firstseen
//@ name=c12_cell_load_w1 props=C12,C03 tier=thorough fns=src/rt/atomic.rs::State::load,src/rt/atomic.rs::State::apply_load_coherence,src/rt/atomic.rs::State::track_load models=VersionVec::join=s_vv_models_agree,VersionVec::ahead=s_vv_models_agree,FirstSeen::is_seen_by_current=s_firstseen
//@ name=c12_cell_rmw_w1 props=C12,C03 tier=thorough fns=src/rt/atomic.rs::State::rmw,src/rt/atomic.rs::State::track_store models=VersionVec::join=s_vv_models_agree,VersionVec::ahead=s_vv_models_agree,FirstSeen::is_seen_by_current=s_firstseen
//@ name=c12_cell_match_w1 props=C12,C03 tier=thorough fns=src/rt/atomic.rs::State::match_load_to_stores,src/rt/atomic.rs::State::match_rmw_to_stores models=VersionVec::join=s_vv_models_agree,VersionVec::ahead=s_vv_models_agree,FirstSeen::is_seen_by_current=s_firstseen
c12_cell_instances!(c12_cell_store_w1, c12_cell_load_w1, c12_cell_rmw_w1, c12_cell_match_w1, 1, true);
//@ name=c12_cell_store_w2 props=C12,C03 tier=thorough fns=src/rt/atomic.rs::State::store,src/rt/atomic.rs::index models=VersionVec::join=s_vv_models_agree,VersionVec::ahead=s_vv_models_agree,FirstSeen::is_seen_by_current=s_firstseen
//@ name=c12_cell_load_w2 props=C12,C03 tier=thorough fns=src/rt/atomic.rs::State::load,src/rt/atomic.rs::State::apply_load_coherence,src/rt/atomic.rs::State::track_load models=VersionVec::join=s_vv_models_agree,VersionVec::ahead=s_vv_models_agree,FirstSeen::is_seen_by_current=s_firstseen
//@ name=c12_cell_rmw_w2 props=C12,C03 tier=thorough fns=src/rt/atomic.rs::State::rmw,src/rt/atomic.rs::State::track_store models=VersionVec::join=s_vv_models_agree,VersionVec::ahead=s_vv_models_agree,FirstSeen::is_seen_by_current=s_firstseen
//@ name=c12_cell_match_w2 props=C12,C03 tier=thorough fns=src/rt/atomic.rs::State::match_load_to_stores,src/rt/atomic.rs::State::match_rmw_to_stores models=VersionVec::join=s_vv_models_agree,VersionVec::ahead=s_vv_models_agree,FirstSeen::is_seen_by_current=s_firstseen
c12_cell_instances!(c12_cell_store_w2, c12_cell_load_w2, c12_cell_rmw_w2, c12_cell_match_w2, 2, true);
//@ name=c12_cell_store_w3 props=C12,C03 tier=thorough fns=src/rt/atomic.rs::State::store,src/rt/atomic.rs::index models=VersionVec::join=s_vv_models_agree,VersionVec::ahead=s_vv_models_agree,FirstSeen::is_seen_by_current=s_firstseen
//@ name=c12_cell_load_w3 props=C12,C03 tier=thorough fns=src/rt/atomic.rs::State::load,src/rt/atomic.rs::State::apply_load_coherence,src/rt/atomic.rs::State::track_load models=VersionVec::join=s_vv_models_agree,VersionVec::ahead=s_vv_models_agree,FirstSeen::is_seen_by_current=s_firstseen
//@ name=c12_cell_rmw_w3 props=C12,C03 tier=thorough fns=src/rt/atomic.rs::State::rmw,src/rt/atomic.rs::State::track_store models=VersionVec::join=s_vv_models_agree,VersionVec::ahead=s_vv_models_agree,FirstSeen::is_seen_by_current=s_firstseen
//@ name=c12_cell_match_w3 props=C12,C03 tier=thorough fns=src/rt/atomic.rs::State::match_load_to_stores,src/rt/atomic.rs::State::match_rmw_to_stores models=VersionVec::join=s_vv_models_agree,VersionVec::ahead=s_vv_models_agree,FirstSeen::is_seen_by_current=s_firstseen
c12_cell_instances!(c12_cell_store_w3, c12_cell_load_w3, c12_cell_rmw_w3, c12_cell_match_w3, 3, true);
//@ name=c12_cell_store_w4 props=C12,C03 tier=quick fns=src/rt/atomic.rs::State::store,src/rt/atomic.rs::index models=VersionVec::join=s_vv_models_agree,VersionVec::ahead=s_vv_models_agree,FirstSeen::is_seen_by_current=s_firstseen
//@ name=c12_cell_load_w4 props=C12,C03 tier=quick fns=src/rt/atomic.rs::State::load,src/rt/atomic.rs::State::apply_load_coherence,src/rt/atomic.rs::State::track_load models=VersionVec::join=s_vv_models_agree,VersionVec::ahead=s_vv_models_agree,FirstSeen::is_seen_by_current=s_firstseen
//@ name=c12_cell_rmw_w4 props=C12,C03 tier=quick fns=src/rt/atomic.rs::State::rmw,src/rt/atomic.rs::State::track_store models=VersionVec::join=s_vv_models_agree,VersionVec::ahead=s_vv_models_agree,FirstSeen::is_seen_by_current=s_firstseen
//@ name=c12_cell_match_w4 props=C12,C03 tier=quick fns=src/rt/atomic.rs::State::match_load_to_stores,src/rt/atomic.rs::State::match_rmw_to_stores models=VersionVec::join=s_vv_models_agree,VersionVec::ahead=s_vv_models_agree,FirstSeen::is_seen_by_current=s_firstseen
c12_cell_instances!(c12_cell_store_w4, c12_cell_load_w4, c12_cell_rmw_w4, c12_cell_match_w4, 4, true);
//@ name=c12_cell_store_w5 props=C12,C03 tier=thorough fns=src/rt/atomic.rs::State::store,src/rt/atomic.rs::index models=VersionVec::join=s_vv_models_agree,VersionVec::ahead=s_vv_models_agree,FirstSeen::is_seen_by_current=s_firstseen
//@ name=c12_cell_load_w5 props=C12,C03 tier=thorough fns=src/rt/atomic.rs::State::load,src/rt/atomic.rs::State::apply_load_coherence,src/rt/atomic.rs::State::track_load models=VersionVec::join=s_vv_models_agree,VersionVec::ahead=s_vv_models_agree,FirstSeen::is_seen_by_current=s_firstseen
//@ name=c12_cell_rmw_w5 props=C12,C03 tier=thorough fns=src/rt/atomic.rs::State::rmw,src/rt/atomic.rs::State::track_store models=VersionVec::join=s_vv_models_agree,VersionVec::ahead=s_vv_models_agree,FirstSeen::is_seen_by_current=s_firstseen
//@ name=c12_cell_match_w5 props=C12,C03 tier=thorough fns=src/rt/atomic.rs::State::match_load_to_stores,src/rt/atomic.rs::State::match_rmw_to_stores models=VersionVec::join=s_vv_models_agree,VersionVec::ahead=s_vv_models_agree,FirstSeen::is_seen_by_current=s_firstseen
c12_cell_instances!(c12_cell_store_w5, c12_cell_load_w5, c12_cell_rmw_w5, c12_cell_match_w5, 5, true);
//@ name=c12_cell_store_w6 props=C12,C03 tier=thorough fns=src/rt/atomic.rs::State::store,src/rt/atomic.rs::index models=VersionVec::join=s_vv_models_agree,VersionVec::ahead=s_vv_models_agree,FirstSeen::is_seen_by_current=s_firstseen
//@ name=c12_cell_load_w6 props=C12,C03 tier=thorough fns=src/rt/atomic.rs::State::load,src/rt/atomic.rs::State::apply_load_coherence,src/rt/atomic.rs::State::track_load models=VersionVec::join=s_vv_models_agree,VersionVec::ahead=s_vv_models_agree,FirstSeen::is_seen_by_current=s_firstseen
//@ name=c12_cell_rmw_w6 props=C12,C03 tier=thorough fns=src/rt/atomic.rs::State::rmw,src/rt/atomic.rs::State::track_store models=VersionVec::join=s_vv_models_agree,VersionVec::ahead=s_vv_models_agree,FirstSeen::is_seen_by_current=s_firstseen
//@ name=c12_cell_match_w6 props=C12,C03 tier=thorough fns=src/rt/atomic.rs::State::match_load_to_stores,src/rt/atomic.rs::State::match_rmw_to_stores models=VersionVec::join=s_vv_models_agree,VersionVec::ahead=s_vv_models_agree,FirstSeen::is_seen_by_current=s_firstseen
c12_cell_instances!(c12_cell_store_w6, c12_cell_load_w6, c12_cell_rmw_w6, c12_cell_match_w6, 6, true);

// ================================================================================================
// S.firstseen: contracts for FirstSeen, and its contract model
// ================================================================================================

pub(crate) fn any_first_seen() -> FirstSeen {
    FirstSeen(kani::any())
}

/// Spec: seen by an event in the active thread's causal past.
pub(crate) fn spec_seen_by_current(fs: &[u16; MAX_THREADS], c: &VersionVec) -> bool {
    let mut r = false;
    let mut t = 0;
    while t < MAX_THREADS {
        if fs[t] != u16::MAX && fs[t] <= vv_get(c, t) {
            r = true;
        }
        t += 1;
    }
    r
}

impl FirstSeen {
    /// Contract model of `is_seen_by_current` (proved equal to the real function: s_firstseen).
    pub(crate) fn is_seen_by_current_model(&self, threads: &thread::Set) -> bool {
        spec_seen_by_current(&self.0, &threads.active().causality)
    }
}

//@ props=C02,C03,C12,C18 tier=quick fns=src/rt/atomic.rs::FirstSeen::new,src/rt/atomic.rs::FirstSeen::touch,src/rt/atomic.rs::FirstSeen::is_seen_by_current,src/rt/atomic.rs::FirstSeen::is_seen_before_yield
#[kani::proof]
#[kani::unwind(7)]
#[kani::stub(std::hash::RandomState::new, crate::rt::thread::verif_kani::fixed_random_state)]
fn s_firstseen() {
    let set = any_set(3);
    let a = crate::rt::thread::verif_kani::active_index(&set).unwrap();
    let th = crate::rt::thread::verif_kani::th_view(thread_at(&set, a));
    let fs = any_first_seen();
    let before = fs.0;
    oblige!("S.firstseen.seen_by_current_iff_some_slot_in_causal_past",
        fs.is_seen_by_current(&set) == spec_seen_by_current(&before, &th.causality));
    oblige!("S.firstseen.model_equals_real", fs.is_seen_by_current(&set) == fs.is_seen_by_current_model(&set));
    let by = fs.is_seen_before_yield(&set);
    let want = match th.last_yield {
        None => false,
        Some(y) => before[a] != u16::MAX && before[a] <= y,
    };
    oblige!("S.firstseen.before_yield_iff_own_slot_le_last_yield", by == want);
    let mut fs2 = FirstSeen(before);
    fs2.touch(&set);
    let mut t = 0;
    while t < MAX_THREADS {
        let want_t = if t == a && before[t] == u16::MAX { vv_get(&th.causality, a) } else { before[t] };
        oblige!("S.firstseen.touch_sets_only_own_unset_slot_to_own_clock", fs2.0[t] == want_t);
        t += 1;
    }
    let n = FirstSeen::new();
    oblige!("S.firstseen.new_all_unset", !spec_seen_by_current(&n.0, &th.causality) || vv_get(&th.causality, 0) == u16::MAX
        || vv_get(&th.causality, 1) == u16::MAX || vv_get(&th.causality, 2) == u16::MAX
        || vv_get(&th.causality, 3) == u16::MAX || vv_get(&th.causality, 4) == u16::MAX);
    reach!("s_firstseen");
}


// ================================================================================================
// C12.glue: rt::Atomic<T> (object-store lookup, branch, tick, candidate selection, path, u64
// conversion, with_mut write-back) refines the sequential-cell model in a one-thread execution.
// Real: Atomic::{new,load,store,rmw,unsync_load,with_mut}, rt::branch, rt::synchronize,
//       Ref::branch_action/set_action, Path::{is_traversed,push_load,branch_load},
//       State::{load,store,rmw,track_*}.
// Models: Execution::schedule (N=1), State::match_*_to_stores (C12.seq), join/ahead/is_seen_by_current.
// ================================================================================================

impl State {
    /// Contract model of `match_load_to_stores` under `wf_single` (proved: c12_cell_match_*).
    pub(crate) fn match_load_single_model(&self, _threads: &thread::Set, dst: &mut [u8], _o: Ordering) -> usize {
        dst[0] = index(self.cnt - 1) as u8;
        1
    }
    /// Contract model of `match_rmw_to_stores` under `wf_single` (proved: c12_cell_match_*).
    pub(crate) fn match_rmw_single_model(&self, dst: &mut [u8]) -> usize {
        dst[0] = index(self.cnt - 1) as u8;
        1
    }
}

/// One-thread execution holding one atomic (object 0) in ring phase (k, full), satisfying
/// `wf_single_k`; empty path (the atomic's operations are about to branch anew).
fn glue_exec(k: usize, full: bool) -> (ManuallyDrop<Execution>, Atomic<u64>) {
    let set = any_set(1);
    crate::rt::thread::verif_kani::assume_incrementable(&set);
    kani::assume(crate::rt::thread::verif_kani::wf_thread_clocks(&set));
    kani::assume(matches!(thread_at(&set, 0).state, thread::State::Runnable { .. }));
    // A6: the operation's own tick must not reach the u16::MAX sentinel of FirstSeen
    kani::assume(vv_get(&thread_at(&set, 0).causality, 0) < u16::MAX - 1);
    let mut st = any_atomic_state();
    st.cnt = cnt_for(k, full);
    let c = thread_at(&set, 0).causality;
    kani::assume(wf_single_k(&atomic_view(&st), &c, k, full) && st.cnt < u16::MAX);
    let mut ex = crate::rt::execution::verif_kani::exec_with(ManuallyDrop::into_inner(set), 4);
    let r = crate::rt::execution::verif_kani::objects_mut(&mut ex).insert(st);
    (ex, Atomic { state: r, _p: PhantomData })
}

fn glue_view(ex: &Execution, a: &Atomic<u64>) -> AtomicView {
    atomic_view(a.state.get(crate::rt::execution::verif_kani::objects(ex)))
}

/// Abstraction function to the sequential cell: the value of the newest store.
fn cell_of(v: &AtomicView, k: usize) -> u64 {
    v.stores[newest_for(k)].value
}

macro_rules! c12_glue_instances {
    ($load:ident, $store:ident, $rmw:ident, $owned:ident, $k:expr, $full:expr) => {
        crate::with_fire_forbidden! {
        #[kani::proof]
        #[kani::unwind(12)]
        #[kani::stub(crate::rt::execution::Execution::schedule, crate::rt::execution::Execution::schedule_model_n1)]
        #[kani::stub(crate::rt::atomic::State::match_load_to_stores, crate::rt::atomic::State::match_load_single_model)]
        #[kani::stub(crate::rt::atomic::State::match_rmw_to_stores, crate::rt::atomic::State::match_rmw_single_model)]
        fn $load() {
            let (mut ex, a) = glue_exec($k, $full);
            let old = glue_view(&ex, &a);
            let o = any_order();
            let r = crate::rt::scheduler::verif_kani::with_ctx(&mut ex, || a.load(Location::disabled(), o));
            let new = glue_view(&ex, &a);
            oblige!("C12.glue.load_returns_cell", r == cell_of(&old, $k));
            oblige!("C12.glue.load_keeps_cell", new.cnt == old.cnt && values_unchanged(&old, &new));
            let c2 = crate::rt::thread::verif_kani::thread_at(&ex.threads, 0).causality;
            oblige!("C12.glue.load_preserves_wf_single", wf_single_k(&new, &c2, $k, $full));
            reach!("c12_glue_load");
        }
        }

        crate::with_fire_forbidden! {
        #[kani::proof]
        #[kani::unwind(12)]
        #[kani::stub(crate::rt::execution::Execution::schedule, crate::rt::execution::Execution::schedule_model_n1)]
        fn $store() {
            let (mut ex, a) = glue_exec($k, $full);
            let old = glue_view(&ex, &a);
            let o = any_order();
            let x: u64 = kani::any();
            crate::rt::scheduler::verif_kani::with_ctx(&mut ex, || a.store(Location::disabled(), x, o));
            let new = glue_view(&ex, &a);
            let (k2, full2) = if $full { (($k + 1) % H, true) } else if $k + 1 == H { (0, true) } else { ($k + 1, false) };
            oblige!("C12.glue.store_sets_cell", new.cnt == old.cnt + 1 && cell_of(&new, k2) == x);
            let c2 = crate::rt::thread::verif_kani::thread_at(&ex.threads, 0).causality;
            oblige!("C12.glue.store_preserves_wf_single", wf_single_k(&new, &c2, k2, full2));
            reach!("c12_glue_store");
        }
        }

        crate::with_fire_forbidden! {
        #[kani::proof]
        #[kani::unwind(12)]
        #[kani::stub(crate::rt::execution::Execution::schedule, crate::rt::execution::Execution::schedule_model_n1)]
        #[kani::stub(crate::rt::atomic::State::match_load_to_stores, crate::rt::atomic::State::match_load_single_model)]
        #[kani::stub(crate::rt::atomic::State::match_rmw_to_stores, crate::rt::atomic::State::match_rmw_single_model)]
        fn $rmw() {
            let (mut ex, a) = glue_exec($k, $full);
            let old = glue_view(&ex, &a);
            let (so, fo) = (any_order(), any_order());
            let next: u64 = kani::any();
            let fail: bool = kani::any();
            let r = crate::rt::scheduler::verif_kani::with_ctx(&mut ex, || {
                a.rmw(Location::disabled(), so, fo, |p| if fail { Err(p.wrapping_add(1)) } else { Ok(next) })
            });
            let new = glue_view(&ex, &a);
            let c2 = crate::rt::thread::verif_kani::thread_at(&ex.threads, 0).causality;
            if fail {
                oblige!("C12.glue.rmw_err_is_closure_error_and_keeps_cell",
                    r == Err(cell_of(&old, $k).wrapping_add(1)) && new.cnt == old.cnt && values_unchanged(&old, &new));
                oblige!("C12.glue.rmw_preserves_wf_single", wf_single_k(&new, &c2, $k, $full));
            } else {
                let (k2, full2) = if $full { (($k + 1) % H, true) } else if $k + 1 == H { (0, true) } else { ($k + 1, false) };
                oblige!("C12.glue.rmw_ok_returns_old_cell_and_sets_new", r == Ok(cell_of(&old, $k)) && cell_of(&new, k2) == next && new.cnt == old.cnt + 1);
                oblige!("C12.glue.rmw_preserves_wf_single", wf_single_k(&new, &c2, k2, full2));
            }
            reach!("c12_glue_rmw");
        }
        }

        crate::with_fire_forbidden! {
        #[kani::proof]
        #[kani::unwind(12)]
        fn $owned() {
            let (mut ex, mut a) = glue_exec($k, $full);
            let old = glue_view(&ex, &a);
            let u = crate::rt::scheduler::verif_kani::with_ctx(&mut ex, || a.unsync_load(Location::disabled()));
            oblige!("C12.glue.unsync_load_returns_cell", u == cell_of(&old, $k));
            let mid = glue_view(&ex, &a);
            oblige!("C12.glue.unsync_load_keeps_cell", mid.cnt == old.cnt && values_unchanged(&old, &mid));
            let x: u64 = kani::any();
            let seen = crate::rt::scheduler::verif_kani::with_ctx(&mut ex, || {
                a.with_mut(Location::disabled(), |p| {
                    let s = *p;
                    *p = x;
                    s
                })
            });
            let new = glue_view(&ex, &a);
            oblige!("C12.glue.with_mut_sees_cell", seen == cell_of(&old, $k));
            oblige!("C12.glue.with_mut_writes_back", new.cnt == old.cnt && cell_of(&new, $k) == x && !new.is_mutating);
            let c2 = crate::rt::thread::verif_kani::thread_at(&ex.threads, 0).causality;
            oblige!("C12.glue.owned_ops_preserve_wf_single", wf_single_k(&new, &c2, $k, $full));
            reach!("c12_glue_owned");
        }
        }
    };
}

//@ name=c12_glue_load_p1 props=C12 tier=quick fns=src/rt/atomic.rs::Atomic::load,src/rt/mod.rs::synchronize,src/rt/mod.rs::branch,src/rt/object.rs::Ref::branch_action,src/rt/path.rs::Path::push_load,src/rt/path.rs::Path::branch_load models=Execution::schedule=c05_schedule_n1,State::match_load_to_stores=c12_cell_match_*
//@ name=c12_glue_store_p1 props=C12 tier=quick fns=src/rt/atomic.rs::Atomic::store models=Execution::schedule=c05_schedule_n1
//@ name=c12_glue_rmw_p1 props=C12 tier=quick fns=src/rt/atomic.rs::Atomic::rmw models=Execution::schedule=c05_schedule_n1,State::match_rmw_to_stores=c12_cell_match_*
//@ name=c12_glue_owned_p1 props=C12 tier=quick fns=src/rt/atomic.rs::Atomic::unsync_load,src/rt/atomic.rs::Atomic::with_mut,src/rt/atomic.rs::State::track_unsync_load,src/rt/atomic.rs::State::track_unsync_mut
c12_glue_instances!(c12_glue_load_p1, c12_glue_store_p1, c12_glue_rmw_p1, c12_glue_owned_p1, 1, false);
//@ name=c12_glue_load_w0 props=C12 tier=thorough fns=src/rt/atomic.rs::Atomic::load models=Execution::schedule=c05_schedule_n1,State::match_load_to_stores=c12_cell_match_*
//@ name=c12_glue_store_w0 props=C12 tier=quick fns=src/rt/atomic.rs::Atomic::store models=Execution::schedule=c05_schedule_n1
//@ name=c12_glue_rmw_w0 props=C12 tier=thorough fns=src/rt/atomic.rs::Atomic::rmw models=Execution::schedule=c05_schedule_n1,State::match_rmw_to_stores=c12_cell_match_*
//@ name=c12_glue_owned_w0 props=C12 tier=quick fns=src/rt/atomic.rs::Atomic::unsync_load,src/rt/atomic.rs::Atomic::with_mut
c12_glue_instances!(c12_glue_load_w0, c12_glue_store_w0, c12_glue_rmw_w0, c12_glue_owned_w0, 0, true);

//@ name=c12_glue_load_w3 props=C12 tier=thorough fns=src/rt/atomic.rs::Atomic::load models=Execution::schedule=c05_schedule_n1,State::match_load_to_stores=c12_cell_match_*
//@ name=c12_glue_store_w3 props=C12 tier=thorough fns=src/rt/atomic.rs::Atomic::store models=Execution::schedule=c05_schedule_n1
//@ name=c12_glue_rmw_w3 props=C12 tier=thorough fns=src/rt/atomic.rs::Atomic::rmw models=Execution::schedule=c05_schedule_n1,State::match_rmw_to_stores=c12_cell_match_*
//@ name=c12_glue_owned_w3 props=C12 tier=quick fns=src/rt/atomic.rs::Atomic::unsync_load,src/rt/atomic.rs::Atomic::with_mut
c12_glue_instances!(c12_glue_load_w3, c12_glue_store_w3, c12_glue_rmw_w3, c12_glue_owned_w3, 3, true);

crate::with_fire_forbidden! {
//@ props=C12 tier=quick fns=src/rt/atomic.rs::Atomic::new,src/rt/object.rs::Store::insert
#[kani::proof]
#[kani::unwind(12)]
fn c12_glue_new() {
    let set = any_set(1);
    crate::rt::thread::verif_kani::assume_incrementable(&set);
    kani::assume(crate::rt::thread::verif_kani::wf_thread_clocks(&set));
    let mut ex = crate::rt::execution::verif_kani::exec_with(ManuallyDrop::into_inner(set), 4);
    let v: u64 = kani::any();
    let a = crate::rt::scheduler::verif_kani::with_ctx(&mut ex, || Atomic::<u64>::new(v, Location::disabled()));
    let av = glue_view(&ex, &a);
    let c = crate::rt::thread::verif_kani::thread_at(&ex.threads, 0).causality;
    oblige!("C12.glue.new_sets_cell", av.cnt == 1 && cell_of(&av, 1) == v);
    oblige!("C12.glue.new_establishes_wf_single", wf_single_k(&av, &c, 1, false));
    reach!("c12_glue_new");
}
}

// ================================================================================================
// C04: the non-atomic view of atomics (track_load / track_store / track_unsync_load / track_unsync_mut)
// Conflict matrix of the property: with_mut conflicts with every other access; unsync_load conflicts
// with atomic stores and with_mut; atomic load || atomic store and load || unsync_load do not conflict.
// ================================================================================================

fn race_active_causality(set: &thread::Set) -> VersionVec {
    thread_at(set, crate::rt::thread::verif_kani::active_index(set).unwrap()).causality
}

crate::with_fire_forbidden! {
//@ props=C04 tier=quick fns=src/rt/atomic.rs::State::track_load,src/rt/atomic.rs::State::track_store,src/rt/atomic.rs::State::track_unsync_load,src/rt/atomic.rs::State::track_unsync_mut models=VersionVec::join=s_vv_models_agree,VersionVec::ahead=s_vv_models_agree,PanicBuilder::fire=forbidden
#[kani::proof]
#[kani::unwind(9)]
fn c04_atomic_track_ordered_access_is_silent() {
    let set = any_set(3);
    let c = race_active_causality(&set);
    let mut st = any_atomic_state();
    let old = atomic_view(&st);
    let k: u8 = kani::any();
    match k {
        0 => {
            kani::assume(vv_le(&old.unsync_mut_at, &c));
            st.track_load(&set);
            let new = atomic_view(&st);
            oblige!("C04.atomic.track_load.exact_update", is_join(&new.loaded_at, &old.loaded_at, &c)
                && vv_eq(&new.stored_at, &old.stored_at) && vv_eq(&new.unsync_loaded_at, &old.unsync_loaded_at) && vv_eq(&new.unsync_mut_at, &old.unsync_mut_at));
        }
        1 => {
            kani::assume(vv_le(&old.unsync_mut_at, &c) && vv_le(&old.unsync_loaded_at, &c));
            st.track_store(&set);
            let new = atomic_view(&st);
            oblige!("C04.atomic.track_store.exact_update", is_join(&new.stored_at, &old.stored_at, &c)
                && vv_eq(&new.loaded_at, &old.loaded_at) && vv_eq(&new.unsync_loaded_at, &old.unsync_loaded_at) && vv_eq(&new.unsync_mut_at, &old.unsync_mut_at));
        }
        2 => {
            kani::assume(vv_le(&old.unsync_mut_at, &c) && vv_le(&old.stored_at, &c));
            st.track_unsync_load(&set);
            let new = atomic_view(&st);
            oblige!("C04.atomic.track_unsync_load.exact_update", is_join(&new.unsync_loaded_at, &old.unsync_loaded_at, &c)
                && vv_eq(&new.loaded_at, &old.loaded_at) && vv_eq(&new.stored_at, &old.stored_at) && vv_eq(&new.unsync_mut_at, &old.unsync_mut_at));
        }
        _ => {
            kani::assume(vv_le(&old.unsync_mut_at, &c) && vv_le(&old.stored_at, &c) && vv_le(&old.loaded_at, &c) && vv_le(&old.unsync_loaded_at, &c));
            st.track_unsync_mut(&set);
            let new = atomic_view(&st);
            oblige!("C04.atomic.track_unsync_mut.exact_update", is_join(&new.unsync_mut_at, &old.unsync_mut_at, &c)
                && vv_eq(&new.loaded_at, &old.loaded_at) && vv_eq(&new.stored_at, &old.stored_at) && vv_eq(&new.unsync_loaded_at, &old.unsync_loaded_at));
        }
    }
    let new = atomic_view(&st);
    oblige!("C04.atomic.track.ring_untouched", new.cnt == old.cnt && values_unchanged(&old, &new) && !new.is_mutating);
    reach!("c04_atomic_track_ordered");
}
}

crate::with_fire_expected! {
//@ props=C04 tier=quick fns=src/rt/atomic.rs::State::track_load,src/rt/atomic.rs::State::track_store,src/rt/atomic.rs::State::track_unsync_load,src/rt/atomic.rs::State::track_unsync_mut models=VersionVec::ahead=s_vv_models_agree,PanicBuilder::fire=expected
#[kani::proof]
#[kani::unwind(9)]
fn c04_atomic_track_unordered_conflict_is_reported() {
    let set = any_set(3);
    let c = race_active_causality(&set);
    let mut st = any_atomic_state();
    let old = atomic_view(&st);
    let k: u8 = kani::any();
    match k {
        0 => {
            kani::assume(!vv_le(&old.unsync_mut_at, &c));
            st.track_load(&set);
        }
        1 => {
            kani::assume(!vv_le(&old.unsync_mut_at, &c) || !vv_le(&old.unsync_loaded_at, &c));
            st.track_store(&set);
        }
        2 => {
            kani::assume(!vv_le(&old.unsync_mut_at, &c) || !vv_le(&old.stored_at, &c));
            st.track_unsync_load(&set);
        }
        _ => {
            kani::assume(!vv_le(&old.unsync_mut_at, &c) || !vv_le(&old.stored_at, &c) || !vv_le(&old.loaded_at, &c) || !vv_le(&old.unsync_loaded_at, &c));
            st.track_unsync_mut(&set);
        }
    }
    must_not_reach!("C04.atomic.track.returns_silently_despite_unordered_conflict");
}
}

// ================================================================================================
// C01.cover.atomic: the two "last access" summaries of an atomic must cover every earlier access
// that races with a pending operation (history of two accesses recorded as `schedule` records them)
// ================================================================================================

fn any_atomic_action() -> Action {
    match kani::any::<u8>() {
        0 => Action::Load,
        1 => Action::Store,
        _ => Action::Rmw,
    }
}

fn atomic_dependent(a: Action, b: Action) -> bool {
    !(a == Action::Load && b == Action::Load)
}

fn atomic_cover_body(inside: bool) {
    let mut st = any_atomic_state();
    let (a1, a2, b) = (any_atomic_action(), any_atomic_action(), any_atomic_action());
    let (v1, v2, vb) = (any_vv(), any_vv(), any_vv());
    let (p1, p2): (usize, usize) = (kani::any(), kani::any());
    kani::assume(p1 < p2);
    st.set_last_access(a1, p1, &v1);
    // `schedule` joins the clock of the access the new one depends on before recording it
    if let Some(d) = st.last_dependent_access(a2) {
        kani::assume(vv_le(d.version(), &v2));
    }
    st.set_last_access(a2, p2, &v2);
    // finding region F4a: two mutually unordered loads, then a store / rmw
    let region = a1 == Action::Load && a2 == Action::Load && b != Action::Load && !vv_le(&v1, &v2);
    kani::assume(region == inside);
    let got = st.last_dependent_access(b).map(|x| crate::rt::access::verif_kani::access_parts(x));
    let covered = |hv: &VersionVec, hp: usize| -> bool {
        match got {
            Some((q, w)) => (q == hp && vv_eq(&w, hv)) || (vv_le(hv, &w) && !vv_le(&w, &vb)),
            None => false,
        }
    };
    oblige!("C01.cover.atomic.first_recorded_access_racing_with_pending_op_is_covered",
        !(atomic_dependent(a1, b) && !vv_le(&v1, &vb)) || covered(&v1, p1));
    oblige!("C01.cover.atomic.second_recorded_access_racing_with_pending_op_is_covered",
        !(atomic_dependent(a2, b) && !vv_le(&v2, &vb)) || covered(&v2, p2));
    reach!("c01_atomic_cover");
}

//@ props=C01 tier=quick fns=src/rt/atomic.rs::State::last_dependent_access,src/rt/atomic.rs::State::set_last_access bounded=history:2_accesses
#[kani::proof]
#[kani::unwind(9)]
fn c01_atomic_cover__outside() {
    atomic_cover_body(false);
}

//@ props=C01 tier=quick fns=src/rt/atomic.rs::State::last_dependent_access,src/rt/atomic.rs::State::set_last_access bounded=history:2_accesses finding=F4a expect=C01.cover.atomic.first_recorded_access_racing_with_pending_op_is_covered
#[kani::proof]
#[kani::unwind(9)]
fn c01_atomic_cover__inside() {
    atomic_cover_body(true);
}
