//! C12.num: the u64 encoding of every numeric type round-trips (child module of `rt::num`).
//! Loop-free over the full domain of each type => complete proofs.
use super::*;
use crate::{oblige, reach};

macro_rules! num_roundtrip {
    ($name:ident, $t:ty) => {
        #[kani::proof]
        fn $name() {
            let x: $t = kani::any();
            oblige!("C12.num.roundtrip", <$t as Numeric>::from_u64(x.into_u64()) == x);
            // two values with the same image are equal (the encoding is injective)
            let y: $t = kani::any();
            oblige!("C12.num.injective", x.into_u64() != y.into_u64() || x == y);
            reach!("c12_num");
        }
    };
}

//@ name=c12_num_u8 props=C12 tier=quick fns=src/rt/num.rs::Numeric
num_roundtrip!(c12_num_u8, u8);
//@ name=c12_num_u16 props=C12 tier=quick fns=src/rt/num.rs::Numeric
num_roundtrip!(c12_num_u16, u16);
//@ name=c12_num_u32 props=C12 tier=quick fns=src/rt/num.rs::Numeric
num_roundtrip!(c12_num_u32, u32);
//@ name=c12_num_u64 props=C12 tier=quick fns=src/rt/num.rs::Numeric
num_roundtrip!(c12_num_u64, u64);
//@ name=c12_num_usize props=C12 tier=quick fns=src/rt/num.rs::Numeric
num_roundtrip!(c12_num_usize, usize);
//@ name=c12_num_i8 props=C12 tier=quick fns=src/rt/num.rs::Numeric
num_roundtrip!(c12_num_i8, i8);
//@ name=c12_num_i16 props=C12 tier=quick fns=src/rt/num.rs::Numeric
num_roundtrip!(c12_num_i16, i16);
//@ name=c12_num_i32 props=C12 tier=quick fns=src/rt/num.rs::Numeric
num_roundtrip!(c12_num_i32, i32);
//@ name=c12_num_i64 props=C12 tier=quick fns=src/rt/num.rs::Numeric
num_roundtrip!(c12_num_i64, i64);
//@ name=c12_num_isize props=C12 tier=quick fns=src/rt/num.rs::Numeric
num_roundtrip!(c12_num_isize, isize);

//@ props=C12 tier=quick fns=src/rt/num.rs::Numeric
#[kani::proof]
fn c12_num_bool() {
    let x: bool = kani::any();
    oblige!("C12.num.roundtrip", <bool as Numeric>::from_u64(x.into_u64()) == x);
    let y: u64 = kani::any();
    oblige!("C12.num.bool_nonzero_is_true", <bool as Numeric>::from_u64(y) == (y != 0));
    oblige!("C12.num.bool_image", x.into_u64() == (x as u64));
    reach!("c12_num");
}

//@ props=C12 tier=quick fns=src/rt/num.rs::Numeric
#[kani::proof]
fn c12_num_ptr() {
    // every address, as an integer-derived pointer (provenance is outside the u64 encoding: assumption)
    let a: usize = kani::any();
    let x = a as *mut u8;
    let back = <*mut u8 as Numeric>::from_u64(x.into_u64());
    oblige!("C12.num.roundtrip", back == x && back as usize == a);
    reach!("c12_num");
}
