//! Dependency substitution for `std::collections::HashSet` in `src/rt/rwlock.rs` (verification build only).
//!
//! Kani cannot execute hashbrown (DESIGN.md 11.2 item 2).  `lib/scratch.py::substitute_deps` replaces the
//! single line `use std::collections::HashSet;` of rt/rwlock.rs in the scratch copy by
//! `use self::verif_kani::vecset::HashSet;`.  Nothing else of the file changes.  ASSUMED CONTRACT of the
//! dependency (A9): `HashSet<thread::Id>` implements a finite mathematical set - `new` is empty, `insert`
//! adds (idempotent), `remove` deletes exactly the given element, `is_empty` <=> no element, equality is
//! extensional.  This array-backed set implements that contract for at most `CAP` elements (loom's
//! MAX_THREADS is 5); every loop is over constant indices so that CBMC keeps the accesses concrete.
pub(crate) const CAP: usize = 5;

#[derive(Clone, Copy)]
pub(crate) struct HashSet<T> {
    pub(crate) slot: [Option<T>; CAP],
}

impl<T: Copy + PartialEq> HashSet<T> {
    pub(crate) fn new() -> HashSet<T> {
        HashSet { slot: [None; CAP] }
    }

    pub(crate) fn contains(&self, v: &T) -> bool {
        let mut i = 0;
        let mut r = false;
        while i < CAP {
            if self.slot[i] == Some(*v) {
                r = true;
            }
            i += 1;
        }
        r
    }

    pub(crate) fn insert(&mut self, v: T) -> bool {
        if self.contains(&v) {
            return false;
        }
        let mut i = 0;
        while i < CAP {
            if self.slot[i].is_none() {
                self.slot[i] = Some(v);
                return true;
            }
            i += 1;
        }
        panic!("verif vecset: capacity exceeded");
    }

    pub(crate) fn remove(&mut self, v: &T) -> bool {
        let mut i = 0;
        let mut r = false;
        while i < CAP {
            if self.slot[i] == Some(*v) {
                self.slot[i] = None;
                r = true;
            }
            i += 1;
        }
        r
    }

    pub(crate) fn is_empty(&self) -> bool {
        self.len() == 0
    }

    pub(crate) fn len(&self) -> usize {
        let mut i = 0;
        let mut n = 0;
        while i < CAP {
            if self.slot[i].is_some() {
                n += 1;
            }
            i += 1;
        }
        n
    }
}

impl<T: Copy + PartialEq> PartialEq for HashSet<T> {
    fn eq(&self, o: &HashSet<T>) -> bool {
        let mut i = 0;
        let mut r = self.len() == o.len();
        while i < CAP {
            if let Some(v) = self.slot[i] {
                if !o.contains(&v) {
                    r = false;
                }
            }
            i += 1;
        }
        r
    }
}

impl<T> std::fmt::Debug for HashSet<T> {
    fn fmt(&self, f: &mut std::fmt::Formatter<'_>) -> std::fmt::Result {
        f.write_str("HashSet{..}")
    }
}
