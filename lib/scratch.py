"""Scratch copy of /repo with the contract modules spliced in (DESIGN.md §3.1).

Nothing here edits /repo.  The verified text is /repo's working tree, byte for byte, plus
appended `#[cfg(kani)] #[path = "/verif/kani/<file>"] mod verif_kani;` lines; the two
dependencies `tracing` / `tracing-subscriber` are pointed at the no-op shims.
"""
import hashlib
import os
import re
import shutil
import subprocess
import sys

REPO = os.environ.get("VERIF_REPO", "/repo")
VERIF = os.path.dirname(os.path.dirname(os.path.abspath(__file__)))
KANI_DIR = os.path.join(VERIF, "kani")

SPLICE_MARK = "// ---- verif splice (appended by /verif; cfg(kani) only) ----"


def sha256(path):
    h = hashlib.sha256()
    with open(path, "rb") as f:
        h.update(f.read())
    return h.hexdigest()


def spliced_files():
    """Map repo-relative source path -> absolute path of the contract module to splice."""
    out = {}
    for root, _dirs, files in os.walk(KANI_DIR):
        for fn in files:
            if not fn.endswith(".rs"):
                continue
            absf = os.path.join(root, fn)
            rel = os.path.relpath(absf, KANI_DIR)
            if rel.startswith("common" + os.sep):
                continue  # helper modules included from other contract modules
            out[os.path.join("src", rel)] = absf
    return out


def scratch_root():
    base = os.environ.get("VERIF_SCRATCH", "/var/tmp")
    return base


def make_scratch(tag=None):
    d = os.path.join(scratch_root(), "loom-verif.%s" % (tag or os.getpid()))
    if os.path.exists(d):
        shutil.rmtree(d)
    os.makedirs(d)
    return d


def copy_repo(dst):
    subprocess.check_call(
        ["rsync", "-a", "--delete", "--exclude", "/target", "--exclude", "/.git", REPO + "/", dst + "/"]
    )


def patch_cargo_toml(dst):
    p = os.path.join(dst, "Cargo.toml")
    src = open(p).read()
    n_t = len(re.findall(r"(?m)^tracing\s*=", src))
    n_ts = len(re.findall(r"(?m)^tracing-subscriber\s*=", src))
    if n_t != 1 or n_ts != 1:
        raise Undecided("lost anchor: Cargo.toml tracing / tracing-subscriber dependency lines")
    src = re.sub(
        r"(?m)^tracing\s*=.*$",
        'tracing = { path = "%s/shims/tracing", default-features = false, features = ["std"] }' % VERIF,
        src,
    )
    src = re.sub(
        r"(?m)^tracing-subscriber\s*=.*$",
        'tracing-subscriber = { path = "%s/shims/tracing-subscriber", features = ["env-filter"] }' % VERIF,
        src,
    )
    # keep Kani's cfg out of rustc's unexpected-cfg lint noise
    src += '\n[lints.rust]\nunexpected_cfgs = { level = "allow" }\n'
    open(p, "w").write(src)
    lock = os.path.join(dst, "Cargo.lock")
    if os.path.exists(lock):
        os.remove(lock)
    os.makedirs(os.path.join(dst, ".cargo"), exist_ok=True)
    with open(os.path.join(dst, ".cargo", "config.toml"), "w") as f:
        f.write("[net]\noffline = true\n")


class Undecided(Exception):
    """Machinery cannot decide (lost anchor, tool failure...). Exit code 2, never a violation."""


def splice(dst):
    """Append the contract modules. Returns {relpath: sha256 of the *unmodified* repo file}."""
    shas = {}
    for rel, absf in sorted(spliced_files().items()):
        target = os.path.join(dst, rel)
        if not os.path.exists(target):
            raise Undecided("lost anchor: %s does not exist in the repository" % rel)
        orig = open(target, "rb").read()
        shas[rel] = hashlib.sha256(orig).hexdigest()
        modname = "verif_kani"
        vis = "pub(crate) "
        add = "\n%s\n#[cfg(kani)]\n#[path = \"%s\"]\n%smod %s;\n" % (SPLICE_MARK, absf, vis, modname)
        with open(target, "ab") as f:
            f.write(add.encode())
        # append-only check: stripping what we appended gives back the repo file byte for byte
        now = open(target, "rb").read()
        if now[: len(orig)] != orig or now[len(orig):] != add.encode():
            raise Undecided("splice is not append-only for %s" % rel)
        if open(os.path.join(REPO, rel), "rb").read() != orig:
            raise Undecided("scratch copy of %s differs from the repository" % rel)
    return shas


def splice_nocheck(dst):
    """Splice without comparing against /repo (development / mutation testing on a patched scratch copy)."""
    for rel, absf in sorted(spliced_files().items()):
        target = os.path.join(dst, rel)
        add = "\n%s\n#[cfg(kani)]\n#[path = \"%s\"]\npub(crate) mod verif_kani;\n" % (SPLICE_MARK, absf)
        with open(target, "ab") as f:
            f.write(add.encode())


# Dependency substitutions (verification build only; see kani/common/vecset.rs and DESIGN.md 11.8).
# (file, exact line that must occur exactly once, replacement).  Everything else of the file stays
# byte for byte; a missing or repeated anchor line is a lost anchor (UNDECIDED), never a violation.
DEP_SUBSTITUTIONS = [
    ("src/rt/rwlock.rs", "use std::collections::HashSet;", "use self::verif_kani::vecset::HashSet;"),
]


def substitute_deps(dst, check=True):
    for rel, old, new in DEP_SUBSTITUTIONS:
        target = os.path.join(dst, rel)
        lines = open(target).read().split("\n")
        hits = [i for i, l in enumerate(lines) if l == old]
        if len(hits) != 1:
            raise Undecided("lost anchor: %s must contain the line %r exactly once (found %d)" % (rel, old, len(hits)))
        before = list(lines)
        lines[hits[0]] = new
        open(target, "w").write("\n".join(lines))
        if check:
            diff = [i for i, (a, b) in enumerate(zip(before, lines)) if a != b]
            if diff != hits or len(before) != len(lines):
                raise Undecided("dependency substitution changed more than one line of %s" % rel)


def prepare(tag=None):
    dst = make_scratch(tag)
    copy_repo(dst)
    shas = splice(dst)
    substitute_deps(dst)
    patch_cargo_toml(dst)
    return dst, shas


def cleanup(dst):
    shutil.rmtree(dst, ignore_errors=True)


if __name__ == "__main__":
    d, s = prepare(sys.argv[1] if len(sys.argv) > 1 else None)
    print(d)
