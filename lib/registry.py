"""Harness registry: parsed from `//@ key=value ...` comment lines in /verif/kani/**/*.rs.

A metadata block is one or more consecutive `//@` lines; it describes the next harness, whose
name is the next `fn <name>(` in the file unless `name=` is given (macro-generated harnesses).

keys
  props     comma list of property ids the harness serves (C01..C20)
  tier      quick | thorough              (thorough harnesses run only in the thorough tier)
  fns       comma list  <file>::<item path>  functions under contract (anchors)
  models    comma list of contract models used as stubs   <callee>=<proving harness>
  bounded   free text `what:value` pairs when something is bounded (else absent)  -> labelled bounded
  finding   id of a known-findings entry this harness is *expected to fail* for (the `__inside` half)
  expect    comma list of obligation ids expected to fail inside the finding region
  weight    light | heavy   (heavy harnesses run with fewer parallel jobs)
  timeout   seconds (per harness) overriding the tier default
  canary    1 => harness must be REFUTED (negated postcondition; vacuity self-test)
"""
import os
import re

from scratch import KANI_DIR

META = re.compile(r"^\s*//@\s*(.*)$")
FN = re.compile(r"\bfn\s+([A-Za-z0-9_]+)\s*\(")


class Harness:
    def __init__(self, name, relsrc, meta, line):
        self.name = name
        self.relsrc = relsrc  # e.g. src/rt/vv.rs
        self.meta = meta
        self.line = line
        self.props = [p for p in meta.get("props", "").split(",") if p]
        self.tier = meta.get("tier", "quick")
        self.fns = [p for p in meta.get("fns", "").split(",") if p]
        self.models = [p for p in meta.get("models", "").split(",") if p]
        self.bounded = meta.get("bounded")
        self.finding = meta.get("finding")
        self.expect = [p for p in meta.get("expect", "").split(",") if p]
        self.weight = meta.get("weight", "light")
        self.timeout = int(meta["timeout"]) if "timeout" in meta else None
        self.canary = meta.get("canary") == "1"

    @property
    def full_name(self):
        rel = self.relsrc[len("src/"):-len(".rs")]
        parts = rel.split("/")
        if parts[-1] in ("mod", "lib"):
            parts = parts[:-1]
        return "::".join(parts + ["verif_kani", self.name])


def parse_kv(text):
    out = {}
    for tok in text.split():
        if "=" in tok:
            k, v = tok.split("=", 1)
            if k in out:
                out[k] = out[k] + "," + v
            else:
                out[k] = v
    return out


def load():
    harnesses = []
    for root, _d, files in os.walk(KANI_DIR):
        for fn in sorted(files):
            if not fn.endswith(".rs"):
                continue
            absf = os.path.join(root, fn)
            rel = os.path.relpath(absf, KANI_DIR)
            if rel.startswith("common" + os.sep):
                continue
            relsrc = os.path.join("src", rel)
            pending = None
            pend_line = 0
            for ln, line in enumerate(open(absf), 1):
                m = META.match(line)
                if m:
                    kv = parse_kv(m.group(1))
                    if pending is None:
                        pending = {}
                        pend_line = ln
                    for k, v in kv.items():
                        pending[k] = (pending[k] + "," + v) if k in pending else v
                    if "name" in pending:
                        harnesses.append(Harness(pending.pop("name"), relsrc, pending, pend_line))
                        pending = None
                    continue
                if pending is not None:
                    f = FN.search(line)
                    if f:
                        harnesses.append(Harness(f.group(1), relsrc, pending, pend_line))
                        pending = None
    names = [h.name for h in harnesses]
    dup = {n for n in names if names.count(n) > 1}
    if dup:
        raise SystemExit("duplicate harness names: %s" % sorted(dup))
    return harnesses


def for_property(pid, tier):
    hs = [h for h in load() if pid in h.props]
    if tier == "quick":
        hs = [h for h in hs if h.tier == "quick"]
    elif tier == "thorough":
        # `deep` harnesses are known not to finish within the thorough budget on this machine; they are
        # kept in the tree (run them with `verif dev`) but are part of no registered command
        hs = [h for h in hs if h.tier in ("quick", "thorough")]
    return hs
