"""Run cargo kani on a scratch copy and classify every check (DESIGN.md §3.4)."""
import json
import os
import re
import subprocess
import time

from scratch import Undecided

KANI_FLAGS = ["-Z", "unstable-options", "--ignore-global-asm", "-Z", "stubbing", "--no-assertion-reach-checks"]
OBL_RE = re.compile(r'OBL:"?\s*,?\s*"?([A-Za-z0-9_.\-]+)')
OBLU_RE = re.compile(r'OBLU:"?\s*,?\s*"?([A-Za-z0-9_.\-]+)')


def base_cmd():
    return ["cargo", "kani"] + KANI_FLAGS


def env():
    e = dict(os.environ)
    e["CARGO_NET_OFFLINE"] = "true"
    e.pop("RUSTFLAGS", None)
    return e


def run(scratch, harnesses, jobs, timeout_s, log_path, extra=None, solver="minisat"):
    """Run the given Harness objects. Returns (json_dict or None, stdout_text, wall_s)."""
    out_json = os.path.join(scratch, "kani-out.%d.json" % int(time.time() * 1000))
    cmd = base_cmd() + ["--exact"]
    for h in harnesses:
        cmd += ["--harness", h.full_name]
    cmd += ["-j", str(jobs), "--output-format=terse", "--harness-timeout", "%ds" % timeout_s,
            "--export-json", out_json, "--solver", solver]
    if extra:
        cmd += extra
    t0 = time.time()
    with open(log_path, "ab") as log:
        log.write(("\n$ " + " ".join(cmd) + "\n").encode())
        log.flush()
        p = subprocess.run(cmd, cwd=scratch, env=env(), stdout=subprocess.PIPE, stderr=subprocess.STDOUT)
        log.write(p.stdout)
    wall = time.time() - t0
    text = p.stdout.decode(errors="replace")
    data = None
    if os.path.exists(out_json):
        try:
            data = json.load(open(out_json))
        except Exception:
            data = None
    return data, text, wall, p.returncode


class HarnessResult:
    def __init__(self, harness):
        self.harness = harness
        self.status = "missing"       # success | failure | timeout | error | missing
        self.obligations = {}         # id -> "success" | "failure" | "unreachable" | "undetermined"
        self.must_not_reach = {}      # id -> status
        self.covers = {}              # description -> satisfied?
        self.other_failures = []      # implicit checks (overflow, bounds, loom-internal asserts) that FAILED
        self.unwind_failures = []
        self.unsupported = []
        self.n_checks = 0
        self.solver_s = 0.0
        self.duration_s = 0.0
        self.stats = {}
        self.raw_failed = []


def classify(data, harnesses):
    """Map Kani's JSON export to HarnessResult per harness."""
    by_name = {h.full_name: HarnessResult(h) for h in harnesses}
    if data is None:
        return by_name
    for r in data.get("verification_results", {}).get("results", []):
        hr = by_name.get(r.get("harness_id"))
        if hr is None:
            continue
        st = (r.get("status") or "").lower()
        hr.duration_s = (r.get("duration_ms") or 0) / 1000.0
        checks = r.get("checks") or []
        hr.n_checks = len(checks)
        for c in checks:
            desc = c.get("description", "")
            cst = (c.get("status") or "").lower()
            cat = c.get("category", "")
            m = OBL_RE.search(desc)
            mu = OBLU_RE.search(desc)
            if mu:
                hr.must_not_reach[mu.group(1)] = cst
            elif m:
                oid = m.group(1)
                prev = hr.obligations.get(oid)
                # the same clause may be instantiated several times (loops): worst status wins
                rank = {"failure": 3, "undetermined": 2, "unreachable": 1, "success": 0}
                if prev is None or rank.get(cst, 2) > rank.get(prev, 2):
                    hr.obligations[oid] = cst
            elif cat == "cover":
                hr.covers[desc] = (cst == "satisfied")
            elif cst == "failure":
                rec = {"description": desc, "function": c.get("function"), "location": c.get("location"),
                       "category": cat}
                if cat == "unwind" or "unwinding assertion" in desc:
                    hr.unwind_failures.append(rec)
                elif cat == "unsupported_construct" or "is not currently supported by Kani" in desc:
                    hr.unsupported.append(rec)
                else:
                    hr.other_failures.append(rec)
            elif cst == "undetermined":
                pass
        if hr.n_checks == 0 and st != "success":
            # CBMC crashed / ran out of memory / timed out: no verdict
            hr.status = "error"
        elif st == "success":
            hr.status = "success"
        elif st in ("failure", "failed"):
            hr.status = "failure"
        elif "timeout" in st or "timed" in st:
            hr.status = "timeout"
        else:
            hr.status = st or "error"
    for c in data.get("cbmc", []):
        hr = by_name.get(c.get("harness_id"))
        if hr is None:
            continue
        stats = c.get("cbmc_stats") or {}
        hr.stats = stats
        hr.solver_s = float(stats.get("runtime_solver_s") or 0.0)
    return by_name
