//! No-op stand-in for `tracing-subscriber` (verification build only).
#[derive(Debug)]
pub struct EnvFilter(());
impl EnvFilter { pub fn from_env(_k: &str) -> EnvFilter { EnvFilter(()) } }
pub mod fmt {
    #[derive(Debug)]
    pub struct Subscriber(());
    #[derive(Debug)]
    pub struct Builder(());
    impl Subscriber { pub fn builder() -> Builder { Builder(()) } }
    impl Builder {
        pub fn with_env_filter(self, _f: super::EnvFilter) -> Self { self }
        pub fn with_test_writer(self) -> Self { self }
        pub fn without_time(self) -> Self { self }
        pub fn finish(self) -> Subscriber { Subscriber(()) }
    }
}
