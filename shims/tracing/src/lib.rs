//! No-op stand-in for the `tracing` crate used ONLY in the verification build.
//! Models "no subscriber installed": every event/span is disabled.
#[macro_export]
macro_rules! trace { ($($t:tt)*) => {{}}; }
#[macro_export]
macro_rules! info { ($($t:tt)*) => {{}}; }
#[macro_export]
macro_rules! info_span { ($($t:tt)*) => { $crate::Span::none() }; }

#[derive(Debug, Clone)]
pub struct Span(());
#[derive(Debug, Clone, PartialEq, Eq)]
pub struct Id(u64);
#[derive(Debug)]
pub struct EnteredSpan(());
impl Span {
    pub fn none() -> Span { Span(()) }
    pub fn current() -> Span { Span(()) }
    pub fn id(&self) -> Option<Id> { None }
    pub fn entered(self) -> EnteredSpan { EnteredSpan(()) }
}
#[derive(Debug)]
pub struct Dispatch(());
impl Dispatch {
    pub fn enter(&self, _id: &Id) {}
    pub fn exit(&self, _id: &Id) {}
}
pub mod dispatcher {
    pub fn get_default<T, F: FnMut(&super::Dispatch) -> T>(mut f: F) -> T { f(&super::Dispatch(())) }
}
pub mod subscriber {
    pub fn with_default<S, T>(_s: S, f: impl FnOnce() -> T) -> T { f() }
}
