// Verus bridge lemmas over the CONTRACT PREDICATES (not over loom code): DESIGN.md §7.
// Each lemma is tagged `// @props=<ids> id=<name>`; the driver counts it as obligation V.<name>
// (back end verus/z3) for those properties.  The spec functions mirror the Kani predicates of the
// same name in /verif/kani/rt/{vv,path}.rs (pairing by inspection: listed as an assumption).
use vstd::prelude::*;

verus! {

// ---------------------------------------------------------------------------------------------
// Vector clocks (mirror of kani/rt/vv.rs: le, is_join)
// ---------------------------------------------------------------------------------------------
pub type VV = Seq<nat>;

pub open spec fn wf_vv(a: VV) -> bool { a.len() == 5 }

pub open spec fn le(a: VV, b: VV) -> bool {
    forall|i: int| 0 <= i < 5 ==> a[i] <= b[i]
}

pub open spec fn max(x: nat, y: nat) -> nat { if x >= y { x } else { y } }

pub open spec fn join(a: VV, b: VV) -> VV {
    Seq::new(5, |i: int| max(a[i], b[i]))
}

// @props=C03,C04 id=lemma_le_partial_order
pub proof fn lemma_le_partial_order(a: VV, b: VV, c: VV)
    requires wf_vv(a), wf_vv(b), wf_vv(c),
    ensures
        le(a, a),
        le(a, b) && le(b, c) ==> le(a, c),
        le(a, b) && le(b, a) ==> a =~= b,
{
    if le(a, b) && le(b, a) {
        assert forall|i: int| 0 <= i < 5 implies a[i] == b[i] by {}
    }
}

// @props=C03,C04,C07,C08,C09,C11 id=lemma_join_is_lub
pub proof fn lemma_join_is_lub(a: VV, b: VV, u: VV)
    requires wf_vv(a), wf_vv(b), wf_vv(u),
    ensures
        le(a, join(a, b)),
        le(b, join(a, b)),
        le(a, u) && le(b, u) ==> le(join(a, b), u),
{
}

// C04 representation lemma: keeping only the JOIN of all previous accesses loses nothing for the
// race check: (a ⊔ b) ≤ c  <=>  a ≤ c and b ≤ c.
// @props=C04 id=lemma_join_le_iff_both_le
pub proof fn lemma_join_le_iff_both_le(a: VV, b: VV, c: VV)
    requires wf_vv(a), wf_vv(b), wf_vv(c),
    ensures le(join(a, b), c) <==> (le(a, c) && le(b, c)),
{
    if le(join(a, b), c) {
        assert forall|i: int| 0 <= i < 5 implies a[i] <= c[i] by { assert(join(a, b)[i] <= c[i]); }
        assert forall|i: int| 0 <= i < 5 implies b[i] <= c[i] by { assert(join(a, b)[i] <= c[i]); }
    }
}

// Composition "release then acquire => view transferred" used by C07/C08/C09/C11:
// the sync point after a release contains the releaser's view; the acquirer's view after the
// acquire contains the sync point; hence releaser's view <= acquirer's view.
// @props=C07,C08,C09,C11,C04 id=lemma_release_acquire_transfers_view
pub proof fn lemma_release_acquire_transfers_view(c_rel: VV, released: VV, sync0: VV, c_acq: VV)
    requires wf_vv(c_rel), wf_vv(released), wf_vv(sync0), wf_vv(c_acq),
    ensures ({
        let sync1 = join(join(sync0, released), c_rel);   // S.sync.store (Release)
        let c2 = join(c_acq, sync1);                       // S.sync.load (Acquire)
        le(c_rel, c2) && le(c_acq, c2)
    }),
{
    let sync1 = join(join(sync0, released), c_rel);
    let c2 = join(c_acq, sync1);
    assert forall|i: int| 0 <= i < 5 implies c_rel[i] <= c2[i] by {
        assert(sync1[i] >= c_rel[i]);
        assert(c2[i] >= sync1[i]);
    }
}

// ---------------------------------------------------------------------------------------------
// C14: a strict DFS successor never repeats and the exploration terminates.
// A decision path is abstracted to the sequence of chosen-alternative indices (one per branch
// entry); C14.step's postcondition says: entries < k unchanged, entry k strictly advanced, entries
// > k dropped.  Then new >_lex old on the zero-padded vectors.
// ---------------------------------------------------------------------------------------------
pub open spec fn lex_lt(a: Seq<nat>, b: Seq<nat>) -> bool
    recommends a.len() == b.len(),
{
    exists|k: int| 0 <= k < a.len() && a[k] < b[k] && (forall|j: int| 0 <= j < k ==> a[j] == b[j])
}

// @props=C14 id=lemma_lex_irreflexive
pub proof fn lemma_lex_irreflexive(a: Seq<nat>)
    ensures !lex_lt(a, a),
{
}

// @props=C14 id=lemma_lex_transitive
pub proof fn lemma_lex_transitive(a: Seq<nat>, b: Seq<nat>, c: Seq<nat>)
    requires a.len() == b.len(), b.len() == c.len(), lex_lt(a, b), lex_lt(b, c),
    ensures lex_lt(a, c),
{
    let k1 = choose|k: int| 0 <= k < a.len() && a[k] < b[k] && (forall|j: int| 0 <= j < k ==> a[j] == b[j]);
    let k2 = choose|k: int| 0 <= k < b.len() && b[k] < c[k] && (forall|j: int| 0 <= j < k ==> b[j] == c[j]);
    let k = if k1 <= k2 { k1 } else { k2 };
    assert(a[k] < c[k]);
    assert forall|j: int| 0 <= j < k implies a[j] == c[j] by {}
}

/// What C14.step obliges, on the padded choice vectors (depth d = max_branches).
pub open spec fn step_successor(old: Seq<nat>, new: Seq<nat>, k: int) -> bool {
    &&& old.len() == new.len()
    &&& 0 <= k < old.len()
    &&& forall|j: int| 0 <= j < k ==> new[j] == old[j]
    &&& new[k] > old[k]
}

// @props=C14 id=lemma_step_successor_increases
pub proof fn lemma_step_successor_increases(old: Seq<nat>, new: Seq<nat>, k: int)
    requires step_successor(old, new, k),
    ensures lex_lt(old, new),
{
}

// No repetition: along a run in which every iteration is a step successor of the previous one,
// two different iterations have different decision paths.
pub open spec fn increasing_run(run: Seq<Seq<nat>>, d: nat) -> bool {
    &&& forall|i: int| 0 <= i < run.len() ==> (#[trigger] run[i]).len() == d
    &&& forall|i: int| 0 <= i < run.len() - 1 ==> lex_lt(#[trigger] run[i], run[i + 1])
}

// @props=C14 id=lemma_increasing_run_never_repeats
pub proof fn lemma_increasing_run_never_repeats(run: Seq<Seq<nat>>, d: nat, i: int, j: int)
    requires increasing_run(run, d), 0 <= i < j < run.len(),
    ensures lex_lt(run[i], run[j]), run[i] != run[j],
    decreases j - i,
{
    if j == i + 1 {
    } else {
        lemma_increasing_run_never_repeats(run, d, i, j - 1);
        lemma_lex_transitive(run[i], run[j - 1], run[j]);
    }
    lemma_lex_irreflexive(run[i]);
}

// Termination measure: with at most `b` alternatives per branch the choice vector read as a
// mixed-radix number strictly increases with every step and is bounded by b^d.
pub open spec fn value(a: Seq<nat>, b: nat) -> nat
    decreases a.len(),
{
    if a.len() == 0 { 0 } else { a[0] * pow(b, (a.len() - 1) as nat) + value(a.subrange(1, a.len() as int), b) }
}

pub open spec fn pow(b: nat, e: nat) -> nat
    decreases e,
{
    if e == 0 { 1 } else { b * pow(b, (e - 1) as nat) }
}

pub open spec fn digits_below(a: Seq<nat>, b: nat) -> bool {
    forall|i: int| 0 <= i < a.len() ==> a[i] < b
}

// @props=C14 id=lemma_value_bounded
pub proof fn lemma_value_bounded(a: Seq<nat>, b: nat)
    requires digits_below(a, b), b >= 1,
    ensures value(a, b) < pow(b, a.len()),
    decreases a.len(),
{
    if a.len() == 0 {
    } else {
        let t = a.subrange(1, a.len() as int);
        assert forall|i: int| 0 <= i < t.len() implies t[i] < b by { assert(t[i] == a[i + 1]); }
        lemma_value_bounded(t, b);
        let p = pow(b, (a.len() - 1) as nat);
        assert(value(a, b) == a[0] * p + value(t, b));
        assert(a[0] + 1 <= b);
        assert((a[0] + 1) * p <= b * p) by (nonlinear_arith) requires a[0] + 1 <= b;
        assert(a[0] * p + p == (a[0] + 1) * p) by (nonlinear_arith);
        assert(pow(b, a.len()) == b * p);
    }
}

// @props=C14 id=lemma_lex_lt_implies_value_lt
pub proof fn lemma_lex_lt_implies_value_lt(a: Seq<nat>, c: Seq<nat>, b: nat)
    requires a.len() == c.len(), digits_below(a, b), digits_below(c, b), b >= 1, lex_lt(a, c),
    ensures value(a, b) < value(c, b),
    decreases a.len(),
{
    let k = choose|k: int| 0 <= k < a.len() && a[k] < c[k] && (forall|j: int| 0 <= j < k ==> a[j] == c[j]);
    let ta = a.subrange(1, a.len() as int);
    let tc = c.subrange(1, c.len() as int);
    assert forall|i: int| 0 <= i < ta.len() implies ta[i] < b by { assert(ta[i] == a[i + 1]); }
    assert forall|i: int| 0 <= i < tc.len() implies tc[i] < b by { assert(tc[i] == c[i + 1]); }
    let p = pow(b, (a.len() - 1) as nat);
    if k == 0 {
        lemma_value_bounded(ta, b);
        assert(value(ta, b) < p);
        assert((a[0] + 1) * p <= c[0] * p) by (nonlinear_arith) requires a[0] + 1 <= c[0];
        assert(a[0] * p + p == (a[0] + 1) * p) by (nonlinear_arith);
    } else {
        assert(a[0] == c[0]);
        assert(ta[k - 1] == a[k] && tc[k - 1] == c[k]);
        assert forall|j: int| 0 <= j < k - 1 implies ta[j] == tc[j] by { assert(ta[j] == a[j + 1] && tc[j] == c[j + 1]); }
        assert(lex_lt(ta, tc));
        lemma_lex_lt_implies_value_lt(ta, tc, b);
    }
}

// ---------------------------------------------------------------------------------------------
// C15: the entry-local invariant (wf_path: every schedule entry's preemptions() <= bound, and
// each new entry's counter = previous entry's preemptions()) implies the per-execution count.
// count[i] = number of preemptions among the first i schedule decisions; pre[i] = stored counter.
// ---------------------------------------------------------------------------------------------
pub open spec fn preempted(flags: Seq<bool>, i: int) -> nat { if flags[i] { 1 } else { 0 } }

pub open spec fn total(flags: Seq<bool>, n: int) -> nat
    decreases n,
{
    if n <= 0 { 0 } else { total(flags, n - 1) + preempted(flags, n - 1) }
}

// @props=C15 id=lemma_preemption_invariant_bounds_execution
pub proof fn lemma_preemption_invariant_bounds_execution(flags: Seq<bool>, pre: Seq<nat>, bound: nat, n: int)
    requires
        0 <= n <= flags.len(), flags.len() == pre.len(),
        flags.len() > 0 ==> pre[0] == 0,
        // C15.branch_thread.preemption_accounting: stored counter of entry i+1 = preemptions() of entry i
        forall|i: int| 0 <= i < flags.len() - 1 ==> #[trigger] pre[i + 1] == pre[i] + preempted(flags, i),
        // wf_path: preemptions() of every entry <= bound
        forall|i: int| 0 <= i < flags.len() ==> #[trigger] pre[i] + preempted(flags, i) <= bound,
    ensures n > 0 ==> total(flags, n) == pre[n - 1] + preempted(flags, n - 1) && total(flags, n) <= bound,
    decreases n,
{
    if n == 1 {
        assert(total(flags, 0) == 0);
        assert(total(flags, 1) == total(flags, 0) + preempted(flags, 0));
        assert(pre[0] + preempted(flags, 0) <= bound);
    } else if n > 1 {
        lemma_preemption_invariant_bounds_execution(flags, pre, bound, n - 1);
        assert(pre[(n - 2) + 1] == pre[n - 2] + preempted(flags, n - 2));
        assert(total(flags, n) == total(flags, n - 1) + preempted(flags, n - 1));
        assert(pre[n - 1] + preempted(flags, n - 1) <= bound);
    }
}

} // verus!

fn main() {}
