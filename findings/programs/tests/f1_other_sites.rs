//! F1 at the RwLock and channel call sites (same mechanism as the mutex: set_blocked / set_runnable
//! overwrite `Runnable{unparked:true}`).  CORRECT programs; the pinned tree reports a deadlock.
use loom::sync::{Arc, RwLock};
use loom::thread;

#[test]
fn f1ef_token_delivered_while_contending_for_rwlock() {
    loom::model(|| {
        let m = Arc::new(RwLock::new(()));
        let m2 = m.clone();
        let t = thread::spawn(move || {
            drop(m2.write().unwrap());
            thread::park();
        });
        thread::yield_now();
        t.thread().unpark();
        drop(m.write().unwrap());
        t.join().unwrap();
    });
}

#[test]
fn f1hi_token_delivered_while_receiving() {
    loom::model(|| {
        let (tx, rx) = loom::sync::mpsc::channel::<u32>();
        let t = thread::spawn(move || {
            let _ = rx.recv().unwrap();
            thread::park();
        });
        thread::yield_now();
        t.thread().unpark();
        tx.send(1).unwrap();
        t.join().unwrap();
    });
}
