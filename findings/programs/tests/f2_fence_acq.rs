//! F2: an acquire fence also synchronises with a store that only ANOTHER thread read (C02: an allowed
//! outcome is never explored).  The litmus test of the property file:
//!   T0: y=1; x.store(1,Rel) | T1: x.load(Rlx); z.store(1,Rel) | T2: z.load(Acq); fence(Acq); y.load(Rlx)
//! outcome (x=1 read by T1, z=1 read by T2, y=0 read by T2) is allowed by C11.
use loom::sync::atomic::{fence, AtomicUsize, Ordering::*};
use loom::sync::Arc;
use loom::thread;
use std::collections::HashSet;
use std::sync::Mutex as StdMutex;

#[test]
fn f2_acquire_fence_oversynchronises() {
    let seen = std::sync::Arc::new(StdMutex::new(HashSet::new()));
    let s2 = seen.clone();
    loom::model(move || {
        let x = Arc::new(AtomicUsize::new(0));
        let y = Arc::new(AtomicUsize::new(0));
        let z = Arc::new(AtomicUsize::new(0));
        let (x1, z1) = (x.clone(), z.clone());
        let (y2, z2) = (y.clone(), z.clone());
        let t1 = thread::spawn(move || {
            let rx = x1.load(Relaxed);
            z1.store(1, Release);
            rx
        });
        let t2 = thread::spawn(move || {
            let rz = z2.load(Acquire);
            fence(Acquire);
            let ry = y2.load(Relaxed);
            (rz, ry)
        });
        y.store(1, Relaxed);
        x.store(1, Release);
        let rx = t1.join().unwrap();
        let (rz, ry) = t2.join().unwrap();
        s2.lock().unwrap().insert((rx, rz, ry));
    });
    let seen = seen.lock().unwrap();
    assert!(seen.contains(&(1, 1, 0)), "allowed outcome (1,1,0) never explored; seen = {:?}", *seen);
}
