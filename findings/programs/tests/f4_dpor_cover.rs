//! F4: the single "last access" summaries miss racing accesses: outcomes that some interleaving
//! produces are never explored (C01).  Each test collects the outcomes over all iterations and
//! asserts that every outcome a real execution can produce was seen.
use loom::sync::atomic::{AtomicUsize, Ordering::SeqCst};
use loom::sync::Arc;
use loom::thread;
use std::collections::HashSet;
use std::sync::Mutex as StdMutex;

/// F4a: the example of the property file: `main: x.store(1); r0=x.load()` vs `t: r1=x.load(); x.store(2)`.
#[test]
fn f4a_store_after_two_unordered_loads() {
    let seen = std::sync::Arc::new(StdMutex::new(HashSet::new()));
    let s2 = seen.clone();
    loom::model(move || {
        let x = Arc::new(AtomicUsize::new(0));
        let x2 = x.clone();
        let t = thread::spawn(move || {
            let r1 = x2.load(SeqCst);
            x2.store(2, SeqCst);
            r1
        });
        x.store(1, SeqCst);
        let r0 = x.load(SeqCst);
        let r1 = t.join().unwrap();
        s2.lock().unwrap().insert((r0, r1));
    });
    let seen = seen.lock().unwrap();
    assert!(seen.contains(&(2, 1)), "outcome (r0,r1)=(2,1) never explored; seen = {:?}", *seen);
}

/// F4b: `strong_count` racing with the drop of another handle must observe both 2 and 1.
#[test]
fn f4b_strong_count_vs_drop() {
    let seen = std::sync::Arc::new(StdMutex::new(HashSet::new()));
    let s2 = seen.clone();
    loom::model(move || {
        let a = Arc::new(0u32);
        let a2 = a.clone();
        let t = thread::spawn(move || drop(a2));
        let c = Arc::strong_count(&a);
        t.join().unwrap();
        s2.lock().unwrap().insert(c);
    });
    let seen = seen.lock().unwrap();
    assert!(seen.contains(&1) && seen.contains(&2), "strong_count outcomes seen = {:?}", *seen);
}

/// F4c: `try_recv` racing with `send` must observe both Empty and the message.
#[test]
fn f4c_try_recv_vs_send() {
    let seen = std::sync::Arc::new(StdMutex::new(HashSet::new()));
    let s2 = seen.clone();
    loom::model(move || {
        let (tx, rx) = loom::sync::mpsc::channel::<u32>();
        let t = thread::spawn(move || tx.send(5).unwrap());
        let r = rx.try_recv().ok();
        t.join().unwrap();
        if r.is_none() {
            let _ = rx.recv();
        }
        s2.lock().unwrap().insert(r);
    });
    let seen = seen.lock().unwrap();
    assert!(seen.contains(&Some(5)) && seen.contains(&None), "try_recv outcomes seen = {:?}", *seen);
}
