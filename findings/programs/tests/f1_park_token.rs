//! F1: park-token handling.  Every test here is a CORRECT program: on a loom that satisfies C05/C08
//! `loom::model` returns normally.  On the pinned tree the ones marked CONFIRMED panic in some interleaving.
use loom::sync::{Arc, Mutex};
use loom::thread;

/// F1a/F1b: a park token delivered while the target contends for a mutex must survive the lock traffic.
#[test]
fn f1ab_token_delivered_while_contending_for_mutex() {
    loom::model(|| {
        let m = Arc::new(Mutex::new(()));
        let m2 = m.clone();
        let t = thread::spawn(move || {
            drop(m2.lock().unwrap());
            thread::park(); // the unpark below was issued before: must return
        });
        thread::yield_now(); // let t announce its lock()
        t.thread().unpark();
        drop(m.lock().unwrap());
        t.join().unwrap();
    });
}

/// F1c (mutex flavour): unparking a thread that is blocked on a held mutex must not wake it.
#[test]
fn f1c_unpark_thread_blocked_on_mutex() {
    loom::model(|| {
        let m = Arc::new(Mutex::new(()));
        let g = m.lock().unwrap();
        let m2 = m.clone();
        let t = thread::spawn(move || {
            drop(m2.lock().unwrap());
        });
        thread::yield_now(); // let t block on the mutex
        t.thread().unpark();
        drop(g);
        t.join().unwrap();
    });
}

/// F1c (join flavour): unparking a thread that is blocked in `join` must not wake it.
#[test]
fn f1c_unpark_thread_blocked_in_join() {
    loom::model(|| {
        let child = thread::spawn(|| {
            let grandchild = thread::spawn(|| {
                thread::yield_now();
            });
            grandchild.join().unwrap();
        });
        thread::yield_now(); // let child block in join
        child.thread().unpark();
        child.join().unwrap();
    });
}

/// F1d: a token stored before (or during) a yield must not be lost by the yield.   CONFIRMED
#[test]
fn f1d_token_lost_by_yield() {
    loom::model(|| {
        let t = thread::spawn(|| {
            thread::yield_now();
            thread::park();
        });
        t.thread().unpark();
        t.join().unwrap();
    });
}
