#!/bin/bash
# Run every claimed property's check (tier = $1, default quick) sequentially; print exit code and wall time.
cd "$(dirname "$0")/.."
TIER=${1:-quick}
for p in $(python3 -c "import json;print(' '.join(c['property_id'] for c in json.load(open('MANIFEST.json'))['checks']))"); do
  s=$(date +%s); ./verif check $p --tier $TIER > logs/runall.$p.$TIER.txt 2>&1; e=$?; echo "$p exit=$e wall=$(( $(date +%s) - s ))s $(grep -c '^KNOWN-FINDING' logs/runall.$p.$TIER.txt) known-findings; $(grep -E '^UNDECIDED|^VIOLATION' logs/runall.$p.$TIER.txt | head -3 | tr '\n' ' ' | cut -c1-300)"
done
