#!/usr/bin/env python3
"""Run the checks against every seeded breaking change (or the ones named on the command line).

For each /verif/seeded/<id>/: copy /repo to a scratch directory, apply patch.diff there, run
`verif check <property> --only <filters>` with VERIF_REPO pointing at the patched copy (evidence and
replays redirected to the scratch directory), record exit code and VIOLATION / UNDECIDED lines in
/verif/seeded/<id>/sweep.json, and remove the scratch copy.  /repo itself is never touched.
"""
import json, os, shutil, subprocess, sys, time
HERE = os.path.dirname(os.path.dirname(os.path.abspath(__file__)))
ids = sys.argv[1:] or sorted(os.listdir(os.path.join(HERE, "seeded")))
summary = []
for mid in ids:
    d = os.path.join(HERE, "seeded", mid)
    if not os.path.exists(os.path.join(d, "meta.json")):
        continue
    meta = json.load(open(os.path.join(d, "meta.json")))
    scr = "/var/tmp/mut.%s.%d" % (mid, os.getpid())
    subprocess.check_call(["rsync", "-a", "--exclude", "/target", "--exclude", "/.git", "/repo/", scr + "/"])
    r = subprocess.run(["patch", "-p1", "-s", "-i", os.path.join(d, "patch.diff")], cwd=scr)
    if r.returncode != 0:
        print(mid, "PATCH FAILED"); shutil.rmtree(scr); continue
    env = dict(os.environ, VERIF_REPO=scr, VERIF_EVIDENCE_DIR=os.path.join(scr, "_evidence"), VERIF_REPLAY_DIR=os.path.join(d, "replay"))
    props = meta.get("check_properties") or [meta["breaks_property"]]
    res = []
    for prop in props:
        t0 = time.time()
        cmd = [os.path.join(HERE, "verif"), "check", prop, "--only"] + meta["check_filter"]
        p = subprocess.run(cmd, env=env, stdout=subprocess.PIPE, stderr=subprocess.STDOUT, cwd=HERE)
        out = p.stdout.decode(errors="replace")
        lines = [l for l in out.splitlines() if l.startswith(("VIOLATION", "UNDECIDED", "KNOWN-FINDING", "[verif] failed"))]
        res.append({"property": prop, "exit": p.returncode, "lines": lines[:12], "wall_s": round(time.time() - t0)})
    shutil.rmtree(scr, ignore_errors=True)
    caught = any(r["exit"] == 1 for r in res)
    json.dump({"id": mid, "caught": caught, "results": res}, open(os.path.join(d, "sweep.json"), "w"), indent=1)
    print(mid, "CAUGHT" if caught else "MISSED", [(r["property"], r["exit"]) for r in res], flush=True)
    summary.append((mid, caught))
print("caught %d / %d" % (sum(1 for _, c in summary if c), len(summary)))
