#!/usr/bin/env python3
"""Generate /verif/MANIFEST.json from the table below (claimed properties only if harnesses exist)."""
import json, os, sys
HERE = os.path.dirname(os.path.dirname(os.path.abspath(__file__)))
sys.path.insert(0, os.path.join(HERE, "lib"))
import registry

BASELINE_OFF = ("cd /repo && cargo nextest run --workspace --no-fail-fast --tool-config-file pb:/w/lib/nextest.toml "
                "--profile pb --test-threads 8 --offline || (cd /repo && cargo test --workspace --no-fail-fast --offline)")

LOCAL = ("Contract-based deductive verification of the real functions (Kani/CBMC on /repo's working tree, "
         "contract modules spliced append-only). The LOCAL obligations listed in DESIGN.md (plan: section 5; as built: section 11.4) are discharged for all symbolic states of the harness shapes; what is bounded (thread count per harness, path depth, queue length, live stores) is labelled bounded in the evidence and not counted as unbounded proof; "
         "the global step from local obligations to the program-level statement is an explicit assumption in the evidence.")
P = {
 "C01": ("local DPOR obligations: dependence soundness, covering last-access summary, backtrack insertion, DFS enumeration", "§5 C01"),
 "C02": ("no over-synchronisation in any view transfer (equalities), no over-pruning of candidate stores, every candidate enumerated once", "§5 C02"),
 "C03": ("clock lattice laws, exact view transfer per ordering, coherence / RMW / SC-fence obligations, inductive well-formedness of atomic::State", "§5 C03"),
 "C04": ("track_* report a violation iff an unordered conflicting access is recorded; every hb edge source transfers exactly the stated view", "§5 C04"),
 "C05": ("schedule reports deadlock iff no thread runnable and not all terminated; blocked/runnable bookkeeping of every primitive", "§5 C05"),
 "C07": ("lock state machines of rt::Mutex / rt::RwLock: exclusion invariant, exact wake/block sets, release->acquire view transfer", "§5 C07"),
 "C08": ("park token, set_unparked, condvar FIFO, Notify flag / spurious-once, hb on wake-up, per phase", "§5 C08"),
 "C09": ("rt::Channel count/queue invariant, FIFO synchronisation points, block/unblock, send->recv hb", "§5 C09"),
 "C10": ("per-object leak checks panic iff leaked; counters maintained exactly; store scan visits every entry", "§5 C10"),
 "C11": ("rt::Arc reference-count machine, release-on-dec / acquire-on-last, dependence classes", "§5 C11"),
 "C12": ("every atomic type x operation x operand value equals std::sync::atomic: wrapper layer vs sequential-cell contract, "
         "rt::Atomic glue and atomic::State proved to refine that cell in one-thread executions of any length; Numeric round trip", "§5 C12"),
 "C13": ("replay fidelity of branch_thread/branch_load/branch_spurious; step is a function of Path only", "§5 C13"),
 "C14": ("Path::step = strict DFS successor, false iff exhausted (+ Verus lemma: strict successor => no repeat, terminates)", "§5 C14"),
 "C15": ("preemption counter definition; backtrack never creates an alternative exceeding the bound", "§5 C15"),
 "C16": ("Execution::step resets every piece of per-iteration state; state reachable only through the scoped TLS", "§5 C16"),
 "C18": ("yield de-prioritisation / re-activation in schedule; yield rule never prunes an mo-maximal store; branch-limit panic", "§5 C18"),
 "C19": ("exploring/skipping flag machine; step/backtrack honour it; max_branches / max_threads panics", "§5 C19"),
}
NA = {
 "C06": "failure propagation is about Rust unwinding through coroutine stacks, drop order while panicking and process abort: Kani compiles with panic=abort and has no model of unwinding/catch_unwind (it crashes the compiler), Verus has no panics; no contract within reach can express it (DESIGN.md §5 C06)",
 "C17": "both mechanisms are HashMaps (Thread.locals, lazy_static::Set.statics): Kani cannot execute hashbrown (a single concrete insert/lookup does not terminate in 10 minutes; stubs for HashSet/HashMap methods are rejected), so no contract on local/local_init/get_static/init_static can be discharged; only the Option-level new/drop/reset protocol is proved (under C16). Downgraded as announced in DESIGN.md §9, details §11.2",
 "C20": "block_on builds a Waker from raw Arc pointers resolved through HashMap<*const (),_> (symbolic-pointer hashing intractable for CBMC; raw vtable calls outside Verus) and the property is a multi-thread wake protocol; its mechanism functions rt::Notify/rt::Mutex are under contract via C07/C08 (DESIGN.md §5 C20)",
}

def main():
    hs = registry.load()
    ready = [l.strip() for l in open(os.path.join(HERE, "contracts", "ready.txt")) if l.strip() and not l.startswith("#")]
    claimed = sorted({p for h in hs for p in h.props if p in P and p in ready})
    checks = []
    for pid in claimed:
        text, ref = P[pid]
        checks.append({
            "property_id": pid,
            "quick_cmd": "./verif check %s --tier quick" % pid,
            "thorough_cmd": "./verif check %s --tier thorough" % pid,
            "evidence_file": "/verif/evidence/%s.json" % pid,
            "replay_cmd_template": "cat {path}",
            "engine": "kani-contracts",
            "level_claimed": {"category": "proof", "text": LOCAL + " Decided here: " + text + ".", "design_ref": "DESIGN.md " + ref},
            "level_note": "Trusted: Kani 0.68/CBMC 6.11/SAT, no-op tracing shims, fixed RandomState, assumed contract of Scheduler::switch, "
                          "std containers inside loom wrappers (the rwlock reader set HashSet is substituted by an array-backed set with an assumed finite-set contract, A9), all unsafe code; clocks < u16::MAX; concrete thread counts per harness; "
                          "global DPOR/RC11 step stated as assumption (see evidence.assumptions).",
            "technique": "contract-based deductive verification: pre/postcondition harnesses on the real functions (Kani/CBMC), callee contract models as stubs, Verus bridge lemmas",
        })
    na = [{"property_id": k, "reason": v} for k, v in sorted(NA.items())]
    for pid in sorted(P):
        if pid not in claimed:
            na.append({"property_id": pid, "reason": "not yet under contract in this revision (planned: DESIGN.md %s)" % P[pid][1]})
    m = {
        "version": 1,
        "setup_cmd": "./verif setup",
        "hooks": {"guard": "kani", "enable": "cfg(kani) is set by cargo-kani on a scratch copy of /repo; contract modules are appended "
                  "(`#[cfg(kani)] #[path=\"/verif/kani/...\"] mod verif_kani;`) to the scratch copy only; /repo itself carries no hook",
                  "baseline_off_cmd": BASELINE_OFF, "source_commits": [], "add_only": True},
        "engines": [{"name": "kani-contracts", "path": "/verif/verif", "serves_properties": claimed,
                     "kind_free_text": "contract harnesses on real loom functions discharged by Kani 0.68 / CBMC 6.11; Verus for bridge lemmas"}],
        "checks": checks,
        "not_applicable": na,
        "notes": "exit 2 from a check means UNDECIDED (lost anchor, timeout, tool error, vacuous harness): never a violation.",
    }
    json.dump(m, open(os.path.join(HERE, "MANIFEST.json"), "w"), indent=1)
    print("claimed:", claimed)

main()
