#!/bin/bash
# usage: confirm_seeded.sh <worktree> <n> <demo-test-name-prefix>
# Confirms: (1) demo passes on unchanged src, (2) with patch: suite passes and demo fails.
WT=$1; N=$2; OUT=$WT/seeded/$N/confirm.txt
cd $WT || exit 2
export CARGO_TARGET_DIR=$WT/target CARGO_NET_OFFLINE=true
git checkout -q -- src
DEMO=$(ls tests/seeded_*_$N.rs | head -1); DEMONAME=$(basename $DEMO .rs)
{
echo "== unchanged tree: demo $DEMONAME"
cargo test --offline --test $DEMONAME 2>&1 | grep -E "^test result|panicked|FAILED" | head -5
git apply seeded/$N/patch.diff || { echo "PATCH DOES NOT APPLY"; exit 1; }
echo "== with patch: demo $DEMONAME"
cargo test --offline --test $DEMONAME 2>&1 | grep -E "^test result|panicked|FAILED|deadlock" | head -8
echo "== with patch: existing suite (demo tests moved aside)"
mkdir -p /tmp/aside.$$; mv tests/seeded_*.rs /tmp/aside.$$/
cargo test --offline --no-fail-fast 2>&1 | grep -E "^test result|FAILED|failed" | sort | uniq -c | head -12
mv /tmp/aside.$$/* tests/; rmdir /tmp/aside.$$
git checkout -q -- src
} > $OUT 2>&1
echo done $WT $N
